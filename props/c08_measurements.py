"""C08 MPS measurements equal dense quantum mechanics (window-dense oracle, DESIGN 5 C08).

Symbolic: every entry of every MPS tensor (complex), every singular value (positive), operator entries of the
n-site operators, norms, the sampled measurement outcome, site indices / option selectors (ctx.choice).
Enumerated (bounds): site type, conserved charges, L, bond dimensions, boundary conditions, stored forms.

The tensors are NOT canonical.  Every measurement routine contracts exactly a window [i..j] and relabels the open
virtual legs (MPS) or closes them with LP/RP (MPSEnvironment); its value is therefore a polynomial in the symbols
that must coincide with the harness's dense evaluation  <Theta_bra| O |Theta_ket>  on exactly that window,
Theta = S_i B_i ... B_j with the open virtual legs kept, O a dense kron operator with the harness's own
Jordan-Wigner strings.  (That canonical form turns the window value into the global one is mathematics.)
"""
import itertools

import numpy as np

from catalogue import build as Bd
from catalogue import mps_factory as F

PROPERTY = 'C08'
LEVEL = 'model_checking'
BOUNDS = {
    'quick': 'L<=3 (infinite: unit cell 2, windows of <=4 sites over <=2 cells), chi<=2 (one chi=3 bond for charge conserving '
             'sites), SpinHalfSite(None,Sz), FermionSite(None,N,parity), finite/segment/infinite, stored forms B and mixed A/B/Th; '
             'every routine x option combination listed in CASES; sample_measurements windows of length 1..L',
    'thorough': 'additionally L=4 with chi pattern 1,2,3,2,1, SpinHalfFermionSite(None; N,Sz), spin+fermion mixed chains, '
                'infinite unit cell 3, 4-operator fermionic terms',
}
OUTSIDE = ('mutinf_two_site / entanglement_entropy_segment (eigvalsh of a density matrix; decided in C07 entropy.segment / entropy.mutinf), TransferMatrix eigen-solves for infinite '
           'overlaps, MPSEnvironment with Jordan-Wigner signs taken from virtual charges (apply_JW_string_left_of_virt_leg), '
           'the eigen-decomposition inside sample_measurements(ops=...) (LAPACK on the concrete site operator; taken as given), '
           'float rounding, canonical-form mathematics')
STUBS = ['BLAS contract stub (object dtype)', 'numpy facade for tenpy.networks.mps, tenpy.networks.mpo, tenpy.networks.terms, '
         'tenpy.tools.math (dtype widening, abs/conj/real/norm routing)', 'Array.conj hook TENPY_VERIF_SYMBOLIC',
         'numpy.random.Generator replaced by a stub returning a symbolic admissible outcome (sample_measurements)']
ASSUMPTIONS = ['floats are reals', 'singular values > 0', 'sample_measurements: the sampled outcome has non-zero probability '
               '(paths on which the norm of the projected state vanishes are dropped) and norm_tol=inf (the tensors are not canonical, '
               'so the intermediate states are not normalised)']


def setup_symbolic(case):
    from symx import stubs
    import tenpy.networks.mps as M
    import tenpy.networks.mpo as MPO
    import tenpy.networks.terms as T
    import tenpy.tools.math as TM
    stubs.install_blas()
    stubs.facade_for(M, MPO, T, TM)


# ------------------------------------------------------------------------------------------------
def _build(ctx, p, name='k', forms=None):
    return F.build(ctx, name, p['kind'], p['L'], p['chis'], p['bc'], forms if forms is not None else p.get('forms', 'B'),
                   cplx=True, variant=p.get('variant', 0))


def _nsite_window_ok(sm, i, n):
    if sm.bc == 'infinite':
        return True
    return 0 <= i and i + n - 1 < sm.L


def _sym_op(ctx, sm, i, n, name, labels=None, order=None):
    """n-site operator with symbolic entries in all charge-allowed blocks; legs p0..p{n-1}, p0*.."""
    legs = [sm.sites[sm.site(i + k)].leg for k in range(n)]
    legs = legs + [l.conj() for l in legs]
    if labels is None:
        labels = (['p'], ['p*']) if n == 1 else ([f'p{k}' for k in range(n)], [f'p{k}*' for k in range(n)])
    op = Bd.tensor(ctx, name, legs, None, cplx=True, labels=labels[0] + labels[1])
    M = op.to_ndarray()
    D = int(np.prod(M.shape[:n]))
    M = M.reshape(D, D)
    if order is not None:
        op = op.transpose(order)
    return op, M


NAMED_1SITE = {
    'spin': ['Sz', 'Sp', 'Sigmay', 'Sx'],
    'spinSz': ['Sz', 'Sp', 'Sigmaz'],
    'spinP': ['Sz', 'Sx'],
    'ferm': ['N', 'dN', 'JW'],
    'fermN': ['N', 'dN', 'JW'],
    'fermP': ['N', 'JW'],
    'shf': ['Nu', 'Sp', 'NuNd', 'JWu'],
    'shfNSz': ['Nu', 'Sp', 'NuNd', 'JWu'],
    'spin+ferm': ['Id', 'JW'],
}


def expval_case(ctx, **p):
    """expectation_value: named 1-site operators (strings, lists repeated periodically, sites option), n-site operators with
    symbolic entries, custom axes"""
    sm = _build(ctx, p)
    psi = sm.psi
    L = sm.L
    names = [nm for nm in NAMED_1SITE[sm.kind] if not sm.sites[0].op_needs_JW(nm)]
    names = names if len(names) > 1 else names * 2
    mode = p['mode']
    if mode == 'named':
        nm = names[ctx.choice('op', len(names))]
        ev = psi.expectation_value(nm)
        ref = [F.expect(sm.theta(i, i), F.op_matrix(sm.sites[i], nm), sm.theta(i, i)) for i in range(L)]
        ctx.prove_eq(ev, np.array(ref), 'expectation_value(name) == <Theta_i|op|Theta_i> for every site')
        # list of operators repeated periodically + explicit (unsorted, repeated) sites
        ops = [names[0], names[1]]
        sites = [L - 1, 0, L - 1] if sm.bc != 'infinite' else [L, 0, 2 * L - 1, -1]
        ev = psi.expectation_value(ops, sites=sites)
        ref = [F.expect(sm.theta(i, i), F.op_matrix(sm.sites[sm.site(i)], ops[sm.site(i) % 2]), sm.theta(i, i)) for i in sites]
        ctx.prove_eq(ev, np.array(ref), 'expectation_value(list of names, sites=...) picks ops[i % len] at the requested sites in order')
        # operators that need a Jordan-Wigner string are refused by MPS.expectation_value
        if F.is_fermionic(sm.kind):
            jw = 'C' if sm.kind.startswith('ferm') else 'Cu'
            try:
                psi.expectation_value(jw)
                ctx.fail('expectation_value of a JW operator must raise ValueError')
            except ValueError:
                ctx.prove(True, 'expectation_value refuses JW operators')
        return
    n = p['n']
    starts = [i for i in (range(L) if sm.bc == 'infinite' else range(L - n + 1))]
    i = starts[ctx.choice('i', len(starts))]
    if mode == 'nsite':
        op, M = _sym_op(ctx, sm, i, n, 'o')
        ev = psi.expectation_value(op, sites=[i])
        th = sm.theta(i, i + n - 1)
        ctx.prove_eq(ev, np.array([F.expect(th, M, th)]), f'expectation_value({n}-site symbolic operator) == window-dense value')
    elif mode == 'axes':
        # custom leg labels, stored in permuted order
        labs = ([f'a{k}' for k in range(n)], [f'b{k}' for k in range(n)])
        order = list(reversed(labs[1])) + labs[0]
        op, M = _sym_op(ctx, sm, i, n, 'o', labels=labs, order=order)
        ev = psi.expectation_value(op, sites=[i], axes=labs)
        th = sm.theta(i, i + n - 1)
        ctx.prove_eq(ev, np.array([F.expect(th, M, th)]), f'expectation_value({n}-site operator, axes=...) == window-dense value')
    elif mode == 'default_sites':
        # the same operator on every window (homogeneous sites only): default sites clip for finite b.c.
        op, M = _sym_op(ctx, sm, 0, n, 'o')
        ev = psi.expectation_value(op)
        ref = []
        for j in starts:
            th = sm.theta(j, j + n - 1)
            ref.append(F.expect(th, M, th))
        ctx.prove_eq(ev, np.array(ref), f'expectation_value({n}-site operator) default sites')
    else:
        raise ValueError(mode)


def multi_case(ctx, **p):
    """expectation_value_multi_sites / expectation_value_term"""
    sm = _build(ctx, p)
    psi = sm.psi
    L = sm.L
    mode = p['mode']
    if mode == 'multi':
        names = p['ops']
        n = len(names)
        starts = list(range(L)) if sm.bc == 'infinite' else list(range(L - n + 1))
        i0 = starts[ctx.choice('i0', len(starts))]
        val = psi.expectation_value_multi_sites(list(names), i0)
        th = sm.theta(i0, i0 + n - 1)
        ctx.prove_eq(val, F.expect(th, F.product_operator(sm, names, i0), th), 'expectation_value_multi_sites == <Theta|op0 x op1 x ...|Theta>')
    elif mode == 'term':
        terms = p['terms']
        term = [tuple(t) for t in terms[ctx.choice('term', len(terms))]]
        i0 = min(t[1] for t in term)
        i1 = max(t[1] for t in term)
        M, par = F.term_operator(sm, term, i0, i1)
        th = sm.theta(i0, i1)
        if par:
            try:
                psi.expectation_value_term(term)
                ctx.fail('expectation_value_term with an odd number of JW operators must raise')
            except ValueError:
                ctx.prove(True, 'odd number of JW operators refused')
            return
        val = psi.expectation_value_term(term)
        ctx.prove_eq(val, F.expect(th, M, th), 'expectation_value_term == dense ordered product with JW strings')
    else:
        raise ValueError(mode)


def _corr_ref(sm, ops1, ops2, sites1, sites2, opstr, str_on_first, jw):
    """docstring of correlation_function, evaluated densely on the window [min(i,j) .. max(i,j)]"""
    ref = np.empty((len(sites1), len(sites2)), dtype=object if sm.symbolic else complex)
    for x, i in enumerate(sites1):
        for y, j in enumerate(sites2):
            o1 = ops1[sm.site(i) % len(ops1)]
            o2 = ops2[sm.site(j) % len(ops2)]
            lo, hi = min(i, j), max(i, j)
            th = sm.theta(lo, hi)
            sites = [sm.sites[sm.site(k)] for k in range(lo, hi + 1)]
            if i == j:
                M = F.op_matrix(sites[0], o1) @ F.op_matrix(sites[0], o2)
            else:
                mats = []
                for k, s in zip(range(lo, hi + 1), sites):
                    if jw:
                        st = F.op_matrix(s, 'JW')
                    elif opstr is not None:
                        st = F.op_matrix(s, opstr[sm.site(k) % len(opstr)])
                    else:
                        st = np.eye(s.dim)
                    if k == lo:
                        first = st if (str_on_first or jw) else np.eye(s.dim)
                        if i < j:
                            mats.append(F.op_matrix(s, o1) @ first)  # ops1[i] prod_{i<=r<j} opstr[r] ops2[j]
                        else:
                            mats.append(first @ F.op_matrix(s, o2))  # prod_{j<=r<i} opstr[r] ops1[i] ops2[j]
                    elif k == hi:
                        mats.append(F.op_matrix(s, o2 if i < j else o1))
                    else:
                        mats.append(st)
                M = F.kron_all(mats)
            ref[x, y] = F.expect(th, M, th)
    return ref


def corr_case(ctx, **p):
    sm = _build(ctx, p)
    psi = sm.psi
    L = sm.L
    ops1, ops2 = list(p['ops1']), list(p['ops2'])
    opstr = p.get('opstr')
    str_on_first = p.get('str_on_first', True)
    hermitian = p.get('hermitian', False)
    sites1 = p.get('sites1')
    sites2 = p.get('sites2')
    kw = {}
    if opstr is not None:
        kw['opstr'] = opstr if len(opstr) > 1 else opstr[0]
    C = psi.correlation_function(ops1 if len(ops1) > 1 else ops1[0], ops2 if len(ops2) > 1 else ops2[0], sites1=sites1, sites2=sites2,
                                 str_on_first=str_on_first, hermitian=hermitian, **kw)
    s1 = sorted(range(L) if sites1 is None else sites1)
    s2 = sorted(range(L) if sites2 is None else sites2)
    jw = opstr is None and any(F.needs_JW(sm.sites[sm.site(i)], ops1[sm.site(i) % len(ops1)]) for i in s1)
    ref = _corr_ref(sm, ops1, ops2, s1, s2, opstr, str_on_first, jw)
    ctx.prove_eq(C, ref, 'correlation_function == dense <ops1_i (string) ops2_j> on the window, all (i,j)')


def corr_hermitian_flag_case(ctx, **p):
    """hermitian=True with sites1 != sites2 is documented to fall back (with a warning) to the full evaluation"""
    sm = _build(ctx, p)
    o1, o2 = p['ops']
    s1, s2 = p['sites1'], p['sites2']
    C = sm.psi.correlation_function(o1, o2, sites1=s1, sites2=s2, hermitian=True)
    jw = F.needs_JW(sm.sites[0], o1)
    ref = _corr_ref(sm, [o1], [o2], sorted(s1), sorted(s2), None, True, jw)
    ctx.prove_eq(C, ref, 'correlation_function(hermitian=True, sites1 != sites2) falls back to the full evaluation')


def corr_jw_detect_case(ctx, **p):
    """autoJW with operator *lists*: the need for a JW string is a property of (ops1 at sites1) and (ops2 at sites2)"""
    sm = _build(ctx, p)
    psi = sm.psi
    mode = p['mode']
    if mode == 'lists':
        # ops1 = ['Cd','Id'] on site 0, ops2 = ['Id','C'] on site 1: <Cd_0 C_1> is a legitimate fermionic correlator
        C = psi.correlation_function(['Cd', 'Id'], ['Id', 'C'], sites1=[0], sites2=[1])
        th = sm.theta(0, 1)
        M, par = F.term_operator(sm, [('Cd', 0), ('C', 1)], 0, 1)
        ctx.prove_eq(C, np.array([[F.expect(th, M, th)]]), 'correlation_function(op lists) == dense <Cd_0 C_1>')
    elif mode == 'mixed':
        # ops1 needs JW, ops2 does not: the string cannot end inside the window -> must be refused (as expectation_value_term does)
        try:
            psi.correlation_function('N', 'Cd', sites1=[0], sites2=[1])
            ctx.fail('mixed JW / non-JW operators: a value was returned although the JW string cannot be placed', '<N_0 Cd_1>')
        except ValueError:
            ctx.prove(True, 'mixed JW / non-JW operators refused')


def termcorr_case(ctx, **p):
    """term_correlation_function_right / _left / term_list_correlation_function_right"""
    from tenpy.networks.terms import TermList
    sm = _build(ctx, p)
    psi = sm.psi
    mode = p['mode']
    tL = [tuple(t) for t in p.get('term_L', [])]
    tR = [tuple(t) for t in p.get('term_R', [])]
    opstr = p.get('opstr')
    autoJW = opstr is None and p.get('autoJW', True)

    def ref_val(i_L, j):
        term = [(o, k + i_L) for o, k in tL] + [(o, k + j) for o, k in tR]
        lo = min(t[1] for t in term)
        hi = max(t[1] for t in term)
        if opstr is None:
            M, par = F.term_operator(sm, term, lo, hi, autoJW=autoJW)
            assert par == 0
        else:
            # forced string strictly between the two terms (terms are single-site here)
            assert len(tL) == 1 and len(tR) == 1
            mats = []
            for k in range(lo, hi + 1):
                s = sm.sites[sm.site(k)]
                if k == lo:
                    mats.append(F.op_matrix(s, tL[0][0]))
                elif k == hi:
                    mats.append(F.op_matrix(s, tR[0][0]))
                else:
                    mats.append(F.op_matrix(s, opstr))
            M = F.kron_all(mats)
        th = sm.theta(lo, hi)
        return F.expect(th, M, th)

    if mode == 'right':
        i_L = p['i_L']
        j_R = p['j_R']
        kw = dict(opstr=opstr, autoJW=False) if opstr is not None else dict(autoJW=autoJW)
        res = psi.term_correlation_function_right(tL, tR, i_L, j_R, **kw)
        ref = [ref_val(i_L, j) for j in sorted(j_R)] if j_R is not None else None
        if j_R is None:
            j0 = i_L + max(t[1] for t in tL) + 1 - min(t[1] for t in tR)
            ref = [ref_val(i_L, j) for j in range(j0, sm.L - max([t[1] for t in tR] + [0]))]
        ctx.prove_eq(res, np.array(ref), 'term_correlation_function_right == dense <term_L term_R(j)> for every j')
    elif mode == 'left':
        i_Ls = p['i_L']
        j_R = p['j_R']
        kw = dict(opstr=opstr, autoJW=False) if opstr is not None else dict(autoJW=autoJW)
        res = psi.term_correlation_function_left(tL, tR, i_Ls, j_R, **kw)
        ref = [ref_val(i, j_R) for i in sorted(i_Ls, reverse=True)]
        ctx.prove_eq(res, np.array(ref), 'term_correlation_function_left == dense <term_L(i) term_R> for every i')
    elif mode == 'left_vs_right':
        # one (i, j) pair evaluated by both routines
        i, j = p['i_L'], p['j_R']
        a = psi.term_correlation_function_right(tL, tR, i, [j])
        b = psi.term_correlation_function_left(tL, tR, [i], j)
        ctx.prove_eq(b, a, 'term_correlation_function_left == term_correlation_function_right on the same (i, j)')
    elif mode == 'list':
        # sums of terms with symbolic strengths
        tl_L = p['tl_L']
        tl_R = p['tl_R']
        sL = [ctx.cplx(f'sL{a}') for a in range(len(tl_L))]
        sR = [ctx.cplx(f'sR{a}') for a in range(len(tl_R))]
        TL = TermList([[tuple(t) for t in term] for term in tl_L], sL)
        TR = TermList([[tuple(t) for t in term] for term in tl_R], sR)
        if ctx.symbolic:
            TL.strength = np.array(sL, dtype=object)
            TR.strength = np.array(sR, dtype=object)
        i_L, j_R = p['i_L'], p['j_R']
        res = psi.term_list_correlation_function_right(TL, TR, i_L, j_R)
        ref = []
        for j in sorted(j_R):
            tot = 0
            for a, ta in enumerate(tl_L):
                for b, tb in enumerate(tl_R):
                    term = [(o, k + i_L) for o, k in ta] + [(o, k + j) for o, k in tb]
                    lo = min(t[1] for t in term)
                    hi = max(t[1] for t in term)
                    # the routine's window: from the left-most site of term_list_L to the right-most site of term_list_R
                    lo = i_L + min(k for t in tl_L for _, k in t)
                    hi = j + max(k for t in tl_R for _, k in t)
                    M, par = F.term_operator(sm, term, lo, hi)
                    if par:
                        continue  # documented: assumed not to contribute
                    th = sm.theta(lo, hi)
                    tot = tot + sL[a] * sR[b] * F.expect(th, M, th)
            ref.append(tot)
        ctx.prove_eq(res, np.array(ref), 'term_list_correlation_function_right == sum of dense term products with strengths')
    else:
        raise ValueError(mode)


def rho_case(ctx, **p):
    sm = _build(ctx, p)
    psi = sm.psi
    segs = p['segments']
    seg = segs[ctx.choice('seg', len(segs))]
    rho = psi.get_rho_segment(list(seg))
    k = len(seg)
    lo, hi = min(seg), max(seg)
    th = sm.theta(lo, hi)  # (vL, p_lo..p_hi, vR)
    n = hi - lo + 1
    keep = [s - lo + 1 for s in sorted(seg)]
    trace = [0] + [x for x in range(1, n + 1) if x not in keep] + [n + 1]
    ref = np.tensordot(th, np.conj(th), axes=(trace, trace))  # kept..., kept*...
    labels = [f'p{a}' for a in range(k)] + [f'p{a}*' for a in range(k)]
    ctx.prove(set(rho.get_leg_labels()) == set(labels), 'get_rho_segment labels p0..pk, p0*..pk*')
    ctx.prove_eq(rho.transpose(labels).to_ndarray(), ref, 'get_rho_segment == partial trace of |Theta><Theta| (read by labels)')


def charge_stats_case(ctx, **p):
    sm = _build(ctx, p)
    psi = sm.psi
    L = sm.L
    bonds = list(range(L + 1)) if sm.bc == 'segment' else list(range(1, L) if sm.bc == 'finite' else range(L))
    b = bonds[ctx.choice('bond', len(bonds))]
    leg = sm.legs[b]
    S = sm.S[sm.bond(b)]
    try:
        charges, ps = psi.probability_per_charge(b)
    except ValueError:
        ctx.prove(not leg.is_blocked(), 'probability_per_charge refuses only non-blocked legs')
        return
    qf = leg.to_qflat()
    uniq = sorted({tuple(int(x) for x in q) for q in qf})
    ref = {}
    for q in uniq:
        ref[q] = sum(S[a] * S[a] for a in range(len(S)) if tuple(int(x) for x in qf[a]) == q)
    got = {}
    for q, pr in zip(charges, ps):
        q = tuple(int(x) for x in q)
        ctx.prove(q not in got, 'probability_per_charge: each charge value once')
        got[q] = pr
    ctx.prove(sorted(got) == uniq, 'probability_per_charge: exactly the charges present on the bond')
    ctx.prove_eq(np.array([got[q] for q in uniq if q in got]), np.array([ref[q] for q in uniq if q in got]),
                 'probability_per_charge == sum of S^2 over the Schmidt states with that charge')
    avg = psi.average_charge(b)
    ref_avg = [sum(ref[q] * q[c] for q in uniq) for c in range(len(uniq[0]))]
    ctx.prove_eq(avg, np.array(ref_avg), 'average_charge == sum_q p(q) q')
    var = psi.charge_variance(b)
    ref_var = [sum(ref[q] * (q[c] - ref_avg[c]) * (q[c] - ref_avg[c]) for q in uniq) for c in range(len(uniq[0]))]
    ctx.prove_eq(var, np.array(ref_var), 'charge_variance == sum_q p(q) (q - <q>)^2')


def env_case(ctx, **p):
    """MPSEnvironment with bra != ket (independent symbols), norms symbolic"""
    from tenpy.networks.mps import MPSEnvironment
    ket = _build(ctx, p, 'k', forms=p.get('forms_ket', 'B'))
    bra = F.same_structure(ctx, 'b', ket, forms=p.get('forms_bra', 'B'))
    nb, nk = ctx.real('norm_bra', pos=True), ctx.real('norm_ket', pos=True)
    bra.psi.norm = nb
    ket.psi.norm = nk
    L = ket.L
    mode = p['mode']
    fb, fk = bra.full_state(), ket.full_state()
    ov = F.overlap_dense(fb, fk) * nb * nk
    if mode == 'overlap':
        ctx.prove_eq(bra.psi.overlap(ket.psi), ov, 'MPS.overlap == dense <bra|ket> * norms')
        env = MPSEnvironment(bra.psi, ket.psi)
        i0 = ctx.choice('i0', L)
        ctx.prove_eq(env.full_contraction(i0), ov, 'MPSEnvironment.full_contraction(i0) == dense <bra|ket> * norms for every i0')
    elif mode == 'overlap_ignore_form':
        # ignore_form=True contracts the stored tensors as they are
        Tb = bra.Td[0]
        Tk = ket.Td[0]
        for i in range(1, L):
            Tb = np.tensordot(Tb, bra.Td[i], axes=(Tb.ndim - 1, 0))
            Tk = np.tensordot(Tk, ket.Td[i], axes=(Tk.ndim - 1, 0))
        ctx.prove_eq(bra.psi.overlap(ket.psi, ignore_form=True), F.overlap_dense(Tb, Tk) * nb * nk,
                     'MPS.overlap(ignore_form=True) == contraction of the stored tensors * norms')
    elif mode == 'LPRP':
        env = MPSEnvironment(bra.psi, ket.psi)
        i = ctx.choice('i', L)
        # LP(i): A-form tensors of sites < i:  S_0 B_0 ... B_{i-1} S_i^{-1}
        store = bool(ctx.choice('store', 2))
        LP = env.get_LP(i, store=store).transpose(['vR*', 'vR']).to_ndarray()
        if i == 0:
            ref = np.eye(ket.chis[0])
        else:
            tb = bra.theta(0, i - 1) * bra.Spow(i, -1.)
            tk = ket.theta(0, i - 1) * ket.Spow(i, -1.)
            ax = list(range(tk.ndim - 1))
            ref = np.tensordot(np.conj(tb), tk, axes=(ax, ax))
        ctx.prove_eq(LP, ref, 'get_LP(i) == contraction of the A-form tensors strictly left of i')
        RP = env.get_RP(i).transpose(['vL', 'vL*']).to_ndarray()
        if i == L - 1:
            ref = np.eye(ket.chis[L])
        else:
            tk = ket.B(i + 1)
            tb = bra.B(i + 1)
            for k in range(i + 2, L):
                tk = np.tensordot(tk, ket.B(k), axes=(tk.ndim - 1, 0))
                tb = np.tensordot(tb, bra.B(k), axes=(tb.ndim - 1, 0))
            ax = list(range(1, tk.ndim))
            ref = np.tensordot(tk, np.conj(tb), axes=(ax, ax))
        ctx.prove_eq(RP, ref, 'get_RP(i) == contraction of the B-form tensors strictly right of i')
        ctx.prove((not store or i == 0 or env.get_LP_age(i) == i) and env.get_RP_age(i) == L - 1 - i, 'LP / RP ages count the contracted sites')
        ctx.prove(env.has_LP(i) == (store or i == 0), 'get_LP(store=False) does not store')
    elif mode == 'expval':
        env = MPSEnvironment(bra.psi, ket.psi)
        n = p['n']
        starts = list(range(L - n + 1))
        i = starts[ctx.choice('i', len(starts))]
        op, M = _sym_op(ctx, ket, i, n, 'o')
        ev = env.expectation_value(op, sites=[i])
        dims = ket.dims(0, L - 1)
        Dl = int(np.prod(dims[:i])) if i > 0 else 1
        Dr = int(np.prod(dims[i + n:])) if i + n < L else 1
        full = np.kron(np.kron(np.eye(Dl), M), np.eye(Dr))
        ctx.prove_eq(ev, np.array([F.expect(fb, full, fk) * nb * nk]), 'MPSEnvironment.expectation_value == dense <bra|1 x op x 1|ket> * norms')
    elif mode == 'corr':
        env = MPSEnvironment(bra.psi, ket.psi)
        o1, o2 = p['ops']
        C = env.correlation_function(o1, o2)
        ref = np.empty((L, L), dtype=object if ket.symbolic else complex)
        for i in range(L):
            for j in range(L):
                M, par = F.term_operator(ket, [(o1, i), (o2, j)], 0, L - 1)
                ref[i, j] = F.expect(fb, M, fk) * nb * nk
        ctx.prove_eq(C, ref, 'MPSEnvironment.correlation_function == dense <bra|op1_i op2_j|ket> * norms')
    elif mode == 'term':
        env = MPSEnvironment(bra.psi, ket.psi)
        terms = p['terms']
        term = [tuple(t) for t in terms[ctx.choice('term', len(terms))]]
        M, par = F.term_operator(ket, term, 0, L - 1)
        val = env.expectation_value_term(term)
        ctx.prove_eq(val, F.expect(fb, M, fk) * nb * nk, 'MPSEnvironment.expectation_value_term == dense <bra|term|ket> * norms')
    else:
        raise ValueError(mode)


def terms_sum_case(ctx, **p):
    """expectation_value_terms_sum: TermList with symbolic strengths -> MPO -> full contraction"""
    from tenpy.networks.terms import TermList
    from tenpy.networks.mps import MPSEnvironment
    sm = _build(ctx, p)
    psi = sm.psi
    L = sm.L
    terms = [[tuple(t) for t in term] for term in p['terms']]
    st = [ctx.num(f's{a}', cplx=p.get('cplx_strength', False)) for a in range(len(terms))]
    tl = TermList(terms, st)
    if ctx.symbolic:
        tl.strength = np.array(st, dtype=object)
    full = sm.full_state()
    tot = 0
    for term, s in zip(terms, st):
        M, par = F.term_operator(sm, term, 0, L - 1)
        assert par == 0
        tot = tot + s * F.expect(full, M, full)
    if p['mode'] == 'mps':
        val, _mpo = psi.expectation_value_terms_sum(tl)
        ctx.prove_eq(val, tot, 'MPS.expectation_value_terms_sum == sum_k strength_k <Psi|term_k|Psi> (full chain, as contracted by the MPO)')
    else:
        bra = F.same_structure(ctx, 'b', sm)
        fb = bra.full_state()
        tot = 0
        for term, s in zip(terms, st):
            M, par = F.term_operator(sm, term, 0, L - 1)
            tot = tot + s * F.expect(fb, M, full)
        env = MPSEnvironment(bra.psi, psi)
        val, _mpo = env.expectation_value_terms_sum(tl)
        ctx.prove_eq(val, tot, 'MPSEnvironment.expectation_value_terms_sum == sum_k strength_k <bra|term_k|ket>')


# ------------------------------------------------------------------------------------------------
class _Rng:
    """stands in for numpy.random.Generator: returns an arbitrary outcome (symbolic selector, one path per value).
    Outcomes of probability zero are inadmissible: they show up as a division by the vanishing norm of the projected
    state (ZeroDivisionError of npc / poison value) and those paths are dropped by the harness."""

    def __init__(self, ctx):
        self.ctx = ctx
        self.k = 0
        self.outcomes = []

    def choice(self, n, p=None):
        ctx = self.ctx
        s = ctx.choice(f'sigma{self.k}', int(n))
        self.k += 1
        if p is not None:
            if ctx.symbolic:
                from symx.scalars import R
                ps = R.lift(p[s])
                bad = ps.poison or (ps.is_const() and ps.const() == 0)
            else:
                bad = not (np.isfinite(p[s]) and p[s] > 0)
            if bad:
                ctx.assume(False)  # inadmissible: the outcome has probability zero (or the window state vanishes)
        self.outcomes.append(s)
        return s


def sample_case(ctx, **p):
    sm = _build(ctx, p)
    psi = sm.psi
    L = sm.L
    first, last = p['first'], p['last']
    cplx_amp = p['complex_amplitude']
    rng = _Rng(ctx)
    try:
        # norm_tol=inf: the tensors are not canonical, so the intermediate states are not normalised
        sigmas, weight = psi.sample_measurements(first, last, rng=rng, norm_tol=p.get('norm_tol', np.inf), complex_amplitude=cplx_amp)
    except ZeroDivisionError:
        # an outcome of probability zero was "sampled" (the norm of the projected state vanishes on this path):
        # inadmissible for a random generator -> the path is outside the assumption and dropped
        ctx.assume(False)
        return
    if ctx.symbolic and getattr(weight, 'poison', False):
        ctx.assume(False)
        return
    ctx.note('sampled_paths')
    ctx.prove(list(sigmas) == rng.outcomes, 'sigmas are the sampled outcomes in site order')
    th = sm.theta(first, last)
    amp = th[(slice(None), ) + tuple(int(s) for s in sigmas) + (slice(None), )]  # (vL, vR)
    prob = np.sum(np.conj(amp) * amp)
    whole = sm.bc == 'finite' and first == 0 and last == L - 1
    if cplx_amp:
        if whole:
            ctx.prove_eq(weight, amp[0, 0], 'sample_measurements: weight == <sigmas|psi> (whole finite chain, with phase)')
        else:
            ctx.prove_eq(weight * weight, prob, 'sample_measurements: weight^2 == Born probability of the outcome on the window')
            ctx.prove(weight >= 0, 'sample_measurements: weight >= 0')
    else:
        ctx.prove_eq(weight, prob, 'sample_measurements(complex_amplitude=False): weight == Born probability |<sigmas|Theta>|^2')


def sample_ops_case(ctx, **p):
    """sample_measurements(ops=[...]): site i of the window is measured in the eigenbasis of
    ops[(i - first_site) % len(ops)] and the eigenvalue is reported.  The eigen-decomposition of the (concrete) site
    operator is LAPACK's; the harness takes it from the same npc.eigh call on the *documented* operator, so that what is
    decided is which operator is used on which site, the eigenvalue reported and the Born rule in that basis."""
    import tenpy.linalg.np_conserved as npc
    sm = _build(ctx, p)
    psi = sm.psi
    L = sm.L
    first, last = p['first'], p['last']
    ops = list(p['ops'])
    cplx_amp = p['complex_amplitude']
    rng = _Rng(ctx)
    try:
        sigmas, weight = psi.sample_measurements(first, last, ops=ops, rng=rng, norm_tol=np.inf, complex_amplitude=cplx_amp)
    except ZeroDivisionError:
        ctx.assume(False)  # outcome of probability zero: inadmissible for a random generator
        return
    if ctx.symbolic and getattr(weight, 'poison', False):
        ctx.assume(False)
        return
    ctx.note('sampled_paths')
    th = sm.theta(first, last)  # (vL, p_first .. p_last, vR)
    want_sigmas = []
    for k, i in enumerate(range(first, last + 1)):
        site = sm.sites[sm.site(i)]
        op = site.get_op(ops[(i - first) % len(ops)]).transpose(['p', 'p*'])
        W, V = npc.eigh(op)
        v = np.conj(V.to_ndarray()[:, rng.outcomes[k]])  # <eigenvector| : contracts the physical leg k of theta
        want_sigmas.append(W[rng.outcomes[k]])
        th = np.tensordot(th, v, axes=(1, 0))  # the projected leg disappears, the next one moves to position 1
    ctx.prove_eq(np.array(sigmas, dtype=float), np.array(want_sigmas, dtype=float),
                 'sample_measurements(ops): reported values are eigenvalues of ops[(i - first_site) % len(ops)] on site i')
    prob = np.sum(np.conj(th) * th)
    whole = sm.bc == 'finite' and first == 0 and last == L - 1
    if not cplx_amp:
        ctx.prove_eq(weight, prob, 'sample_measurements(ops, complex_amplitude=False): weight == Born probability in the eigenbases')
    elif whole:
        ctx.prove_eq(weight, th[0, 0], 'sample_measurements(ops): weight == <eigenvectors|psi> (whole finite chain)')
    else:
        ctx.prove_eq(weight * weight, prob, 'sample_measurements(ops): weight^2 == Born probability in the eigenbases of the documented operators')


# ------------------------------------------------------------------------------------------------
def _geoms(tier):
    g = [
        dict(kind='spin', L=3, chis=[1, 2, 2, 1], bc='finite'),
        dict(kind='spinSz', L=3, chis=[1, 2, 3, 1], bc='finite', variant=1),
        dict(kind='fermN', L=3, chis=[1, 2, 2, 1], bc='finite'),
        dict(kind='ferm', L=2, chis=[2, 2, 2], bc='segment'),
        dict(kind='fermN', L=3, chis=[2, 2, 3, 2], bc='segment', variant=1),
        dict(kind='spin', L=2, chis=[2, 2, 2], bc='infinite'),
        dict(kind='spinSz', L=2, chis=[2, 2, 2], bc='infinite', variant=1),
        dict(kind='fermN', L=2, chis=[2, 2, 2], bc='infinite'),
        dict(kind='fermP', L=3, chis=[1, 2, 2, 1], bc='finite'),  # charge with a modulus (Z_2)
    ]
    if tier == 'thorough':
        g += [
            dict(kind='spin', L=4, chis=[1, 2, 3, 2, 1], bc='finite'),
            dict(kind='fermN', L=4, chis=[1, 2, 3, 2, 1], bc='finite', variant=1),
            dict(kind='shf', L=2, chis=[1, 2, 1], bc='finite'),
            dict(kind='shfNSz', L=3, chis=[1, 3, 3, 1], bc='finite', variant=1),
            dict(kind='spin+ferm', L=3, chis=[1, 2, 2, 1], bc='finite'),
            dict(kind='spinSz', L=3, chis=[2, 2, 2, 2], bc='infinite', variant=1),
            dict(kind='ferm', L=3, chis=[2, 3, 2, 2], bc='segment'),
            dict(kind='spinP', L=3, chis=[2, 2, 2, 2], bc='segment', variant=1),
            dict(kind='fermP', L=2, chis=[2, 2, 2], bc='infinite'),
        ]
    return g


def _gname(g):
    return f"{g['kind']},L={g['L']},chi={'-'.join(map(str, g['chis']))},{g['bc']}"


def CASES(tier, seed):
    cases = []
    thorough = tier == 'thorough'
    O = dict(max_paths=4000, max_wall_s=1500 if thorough else 200, validate_paths=2, hard_timeout_s=1700 if thorough else 230,
             prove_timeout_ms=120000 if thorough else 10000)

    def add(name, fn, g, **kw):
        prm = dict(g)
        prm.update(kw)
        cases.append(dict(name=name, fn=fn, params=prm, opts=dict(O)))

    for g in _geoms(tier):
        gn = _gname(g)
        kind, L, bc = g['kind'], g['L'], g['bc']
        homog = kind != 'spin+ferm'
        ferm = F.is_fermionic(kind)
        # ---- expectation_value
        add(f'expval.named[{gn}]', 'expval_case', g, mode='named')
        for n in (1, 2, 3):
            if bc != 'infinite' and n > L:
                continue
            if n == 3 and not thorough and kind not in ('spinSz', 'fermN'):
                continue
            add(f'expval.nsite{n}[{gn}]', 'expval_case', g, mode='nsite', n=n)
        add(f'expval.axes2[{gn}]', 'expval_case', g, mode='axes', n=2)
        if homog:
            add(f'expval.default_sites2[{gn}]', 'expval_case', g, mode='default_sites', n=2)
        # stored forms other than B: the routines convert through get_B / get_theta
        if bc == 'finite' and kind in ('spin', 'fermN'):
            fm = (['A', 'Th', 'B', 'G'] * 2)[:L]
            add(f'expval.nsite2.forms[{gn}]', 'expval_case', g, mode='nsite', n=2, forms=fm)
        # ---- multi sites / terms
        if kind.startswith('spin') and homog:
            mops = [['Sz', 'Sp'], ['Sp', 'Id', 'Sm']] if kind != 'spinP' else [['Sz', 'Sx']]
            terms = [[('Sp', 0), ('Sm', 1)], [('Sm', 1), ('Sz', 0), ('Sp', 1)], [('Sz', 1)]]
            if bc == 'infinite' or L >= 3:
                terms += [[('Sp', 2), ('Sm', 0)], [('Sz', 2), ('Sp', 0), ('Sz', 1), ('Sm', 2)]]
            if bc == 'infinite':
                terms += [[('Sp', -1), ('Sm', 1)]]
        elif kind.startswith('ferm'):
            mops = [['N', 'Cd C'], ['Cd', 'JW', 'C']]
            terms = [[('Cd', 0), ('C', 1)], [('C', 1), ('Cd', 0)], [('C', 0), ('Cd', 1)], [('N', 0), ('Cd', 1), ('C', 1)], [('Cd', 1)],
                     [('Cd', 0), ('C', 0)]]
            if bc == 'infinite' or L >= 3:
                terms += [[('Cd', 0), ('C', 2)], [('C', 2), ('Cd', 0)], [('Cd', 2), ('N', 1), ('C', 0)],
                          [('Cd', 0), ('Cd', 1), ('C', 2), ('C', 1)], [('Cd', 2), ('C', 0), ('Cd', 1), ('C', 2)]]
            if bc == 'infinite':
                terms += [[('Cd', -1), ('C', 1)]]
        elif kind.startswith('shf'):
            mops = [['Nu', 'Cdu Cd']]
            terms = [[('Cdu', 0), ('Cu', 1)], [('Cd', 1), ('Cdd', 0)], [('Cdu', 0), ('Cd', 0), ('Cdd', 1), ('Cu', 1)], [('Cu', 1), ('Cdu', 0)]]
        else:
            mops = [['Sz', 'N', 'Sp']]
            terms = [[('Sp', 0), ('Cd', 1)], [('Sm', 2), ('N', 1), ('Sz', 0)], [('Sp', 2), ('Sm', 0)]]
        for ops in mops:
            if bc != 'infinite' and len(ops) > L:
                continue
            add(f"multi_sites[{','.join(ops)}][{gn}]", 'multi_case', g, mode='multi', ops=ops)
        add(f'term[{gn}]', 'multi_case', g, mode='term', terms=terms)
        # ---- correlation_function
        if kind.startswith('spin') and homog:
            pairs = [(['Sp'], ['Sm']), (['Sz', 'Sp'], ['Sm', 'Sz'])] if kind != 'spinP' else [(['Sz'], ['Sx'])]
            strs = [None, ['Sz'], ['Sz', 'Id']]
        elif kind.startswith('ferm'):
            pairs = [(['Cd'], ['C']), (['C'], ['Cd']), (['N'], ['dN'])]
            strs = [None]
        elif kind.startswith('shf'):
            pairs = [(['Cdu'], ['Cu']), (['Cd'], ['Cdd'])]
            strs = [None]
        else:
            pairs = []
            strs = [None]
        for (o1, o2) in pairs:
            for opstr in strs:
                for sof in ((True, False) if opstr is not None else (True, )):
                    for herm in ((False, True) if (o1, o2) in ((['Sp'], ['Sm']), (['Cd'], ['C']), (['Cdu'], ['Cu'])) and opstr is None else (False, )):
                        kw = dict(ops1=o1, ops2=o2, opstr=opstr, str_on_first=sof, hermitian=herm)
                        if bc == 'infinite':
                            # (charge-free chi=2 tensors: 4-site windows are too expensive for the quick tier)
                            kw.update(sites1=[0, 1], sites2=[0, 1, 2, 3] if (opstr is None and (kind != 'spin' or thorough)) else [0, 1, 2])
                            if herm:
                                kw.update(sites1=[0, 1, 2], sites2=[0, 1, 2])
                        add(f"corr[{'.'.join(o1)}|{'.'.join(o2)},opstr={opstr},first={sof},herm={herm}][{gn}]", 'corr_case', g, **kw)
        if pairs and bc == 'finite' and L >= 3:
            o1, o2 = pairs[0]
            add(f'corr.hermitian_flag.sites_differ_in_length[{gn}]', 'corr_hermitian_flag_case', g, ops=[o1[0], o2[0]], sites1=[0, 1], sites2=[0, 1, 2])
            add(f'corr.hermitian_flag.sites_differ[{gn}]', 'corr_hermitian_flag_case', g, ops=[o1[0], o2[0]], sites1=[0, 1], sites2=[1, 2])
        if kind.startswith('ferm') and bc == 'finite':
            # explicit (non-JW) string between fermionic operators with autoJW switched off by opstr
            add(f'corr[Cd|C,opstr=N][{gn}]', 'corr_case', g, ops1=['Cd'], ops2=['C'], opstr=['N'], str_on_first=True)
            add(f'corr.jwdetect.lists[{gn}]', 'corr_jw_detect_case', g, mode='lists')
            add(f'corr.jwdetect.mixed[{gn}]', 'corr_jw_detect_case', g, mode='mixed')
        # ---- term correlation functions
        if kind.startswith('ferm') or (kind.startswith('spin') and homog):
            if kind.startswith('ferm'):
                tps = [([('Cd', 0)], [('C', 0)]), ([('C', 0)], [('Cd', 0)]), ([('N', 0)], [('Cd', 0), ('C', 0)])]
                tp2 = ([('Cd', 0), ('N', 1)], [('C', 0)], [('C', 0)])
            else:
                tps = [([('Sp', 0)], [('Sm', 0)])]
                tp2 = ([('Sp', 0), ('Sz', 1)], [('Sm', 0)], [('Sz', 0)])
            W = L if bc != 'infinite' else (2 * L if (kind != 'spin' or thorough) else 3)
            for a, (tl, tr) in enumerate(tps):
                add(f'termcorr.right{a}[{gn}]', 'termcorr_case', g, mode='right', term_L=tl, term_R=tr, i_L=0, j_R=list(range(1, W))[::-1])
                add(f'termcorr.left{a}[{gn}]', 'termcorr_case', g, mode='left', term_L=tl, term_R=tr, i_L=list(range(0, W - 1)), j_R=W - 1)
                if W >= 3:
                    add(f'termcorr.left_vs_right{a}[{gn}]', 'termcorr_case', g, mode='left_vs_right', term_L=tl, term_R=tr, i_L=0, j_R=W - 1)
            if bc == 'finite':
                add(f'termcorr.right.default_jR[{gn}]', 'termcorr_case', g, mode='right', term_L=tps[0][0], term_R=tps[0][1], i_L=0, j_R=None)
            if W >= 3:
                # two-site left term, and a sum of terms on the left
                add(f'termcorr.right.2site[{gn}]', 'termcorr_case', g, mode='right', term_L=tp2[0], term_R=tp2[1], i_L=0, j_R=[2] if W == 3 else [2, 3])
                add(f'termcorr.left.2site[{gn}]', 'termcorr_case', g, mode='left', term_L=tp2[0], term_R=tp2[1], i_L=[0] if W == 3 else [0, 1], j_R=W - 1)
                add(f'termcorr.list[{gn}]', 'termcorr_case', g, mode='list', tl_L=[tp2[0], [tp2[0][0]]], tl_R=[tp2[1], tp2[2]] if kind.startswith('spin') else [tp2[1]],
                    i_L=0, j_R=[2] if W == 3 else [2, 3])
            if kind.startswith('spin'):
                add(f'termcorr.right.opstr[{gn}]', 'termcorr_case', g, mode='right', term_L=[('Sp', 0)], term_R=[('Sm', 0)], i_L=0,
                    j_R=list(range(1, W)), opstr='Sz')
                add(f'termcorr.left.opstr[{gn}]', 'termcorr_case', g, mode='left', term_L=[('Sp', 0)], term_R=[('Sm', 0)], i_L=list(range(0, W - 1)),
                    j_R=W - 1, opstr='Sz')
        # ---- reduced density matrices
        segs = [[0], [0, 1]]
        if bc == 'infinite' or L >= 3:
            segs += [[0, 2], [0, 1, 2]]
        if bc == 'infinite':
            segs += [[1, 2], [1, 3]]
        add(f'rho_segment[{gn}]', 'rho_case', g, segments=segs)
        # ---- charge statistics
        if kind in ('spinSz', 'fermN', 'shfNSz', 'fermP'):
            add(f'charge_stats[{gn}]', 'charge_stats_case', g)
        # ---- bra != ket
        if bc != 'infinite':
            add(f'env.overlap[{gn}]', 'env_case', g, mode='overlap')
            add(f'env.LPRP[{gn}]', 'env_case', g, mode='LPRP')
            heavy = kind in ('spin', 'ferm', 'shf', 'spin+ferm') and L >= 4  # bra != ket over 4 charge-free sites: > 25 min per case
            add(f'env.expval1[{gn}]', 'env_case', g, mode='expval', n=1)
            if L >= 2 and not heavy:
                add(f'env.expval2[{gn}]', 'env_case', g, mode='expval', n=2)
            if bc == 'finite':
                add(f'env.overlap_ignore_form[{gn}]', 'env_case', g, mode='overlap_ignore_form', forms_ket='A', forms_bra='B')
                add(f'env.overlap.forms[{gn}]', 'env_case', g, mode='overlap', forms_ket='A', forms_bra=(['B', 'Th', 'G', 'A'] * 2)[:L])
                if kind.startswith('spin') and homog and kind != 'spinP' and not heavy:
                    add(f'env.corr[{gn}]', 'env_case', g, mode='corr', ops=['Sp', 'Sm'])
                    add(f'env.term[{gn}]', 'env_case', g, mode='term', terms=[[('Sp', 0), ('Sm', L - 1)], [('Sz', L - 1), ('Sp', 0), ('Sm', 0)]])
        # ---- sums of terms through an MPO
        if bc == 'finite' and homog and kind != 'spinP':
            if kind.startswith('spin'):
                ts = [[('Sz', 0)], [('Sp', 0), ('Sm', 1)], [('Sm', 0), ('Sp', L - 1)], [('Sz', 1), ('Sz', L - 1)]]
            elif kind.startswith('ferm'):
                ts = [[('N', 0)], [('Cd', 0), ('C', 1)], [('Cd', L - 1), ('C', 0)], [('N', 1), ('N', L - 1)]]
            else:
                ts = [[('Nu', 0)], [('Cdu', 0), ('Cu', 1)], [('Cdd', L - 1), ('Cd', 0)]]
            add(f'terms_sum.mps[{gn}]', 'terms_sum_case', g, mode='mps', terms=ts)
            if kind != 'spin' or (thorough and L < 4):
                add(f'terms_sum.env[{gn}]', 'terms_sum_case', g, mode='env', terms=ts, cplx_strength=True)
        # ---- sampling (cost: pure-Python polynomial arithmetic with sqrt reductions, so the windows are kept short)
        cons = kind in ('spinSz', 'fermN', 'fermP', 'shfNSz', 'spinP')
        wins = [(0, 0), (0, 1), (L - 1, L - 1)]
        if bc == 'infinite':
            wins += [(L - 1, L)]  # across the unit-cell boundary
        elif L >= 3:
            wins += [(1, 2)]
        if cons and (bc == 'finite' or (thorough and bc == 'segment')):
            wins += [(0, 2)] if L >= 3 else []
        for first, last in sorted(set(wins)):
            if bc != 'infinite' and last > L - 1:
                continue
            for ca in (True, False):
                if not ca and last > first and not (cons and bc == 'finite') and not thorough:
                    continue  # complex_amplitude=False on longer windows: see known finding; checked on the finite chains
                add(f'sample[{first}..{last},complex_amplitude={ca}][{gn}]', 'sample_case', g, first=first, last=last, complex_amplitude=ca)
                cases[-1]['opts'].update(guided_with_side=True, lazy_abs=True, named_zero_tests=True, profile=(last == first))
        # measurement in the eigenbasis of given operators (operator list shorter than / not aligned with the window)
        if kind.startswith('spin') and homog:
            meas_ops = ['Sz', 'Sx'] if kind in ('spin', 'spinP') else ['Sz', 'Sigmaz']
        elif kind.startswith('ferm'):
            meas_ops = ['N', 'dN']
        elif kind.startswith('shf'):
            meas_ops = ['Nu', 'Ntot']
        else:
            meas_ops = None
        if meas_ops is not None and kind != 'spinP' and (thorough or bc == 'finite' or kind not in ('spin', 'ferm')):
            owins = [(0, 1), (1, 2)] if (bc == 'infinite' or L >= 3) else [(0, 1), (1, 1)]
            for first, last in owins:
                for ca in ((True, False) if first > 0 else (True, )):
                    add(f'sample.ops[{first}..{last},ops={".".join(meas_ops)},complex_amplitude={ca}][{gn}]', 'sample_ops_case', g, first=first,
                        last=last, ops=meas_ops, complex_amplitude=ca)
                    cases[-1]['opts'].update(guided_with_side=True, lazy_abs=True, named_zero_tests=True, profile=False)
    return cases
