"""C18 Results on disk survive a crash and a resumed run equals an uninterrupted one (partial claim).

(a) save protocol: the REAL ``Simulation.__init__ / fix_output_filenames / get_backup_filename / save_results /
    from_saved_checkpoint`` and the real ``hdf5_io.save / load`` (pickle and HDF5 names, safe_write on) run on the
    modelled file system ``symx.fsmodel``; the step before which each process dies (crash index), the number of saves
    per process, the initial directory content and the written-prefix length of the file being written are symbolic.
    Histories: start; saves; crash; resume from whatever loads; saves; crash (second crash) [; resume; saves; crash].
(b) bookkeeping: the real ``RealTimeEvolution`` simulation drives a stub algorithm (subclass of
    ``TimeEvolutionAlgorithm`` whose state is a counter, time step, start time and per-step truncation errors symbolic)
    on the modelled file system; the run is interrupted at a symbolic checkpoint by a listener (after the save) or
    killed at a symbolic file-system step inside a checkpoint save, resumed by ``from_saved_checkpoint`` +
    ``resume_run`` and compared with the uninterrupted run: every measurement series, none lost or duplicated.
(c) real engines: the interruption checkpoint is the symbolic variable; on each path the real engines run
    CONCRETELY (plain numerics, the solver only enumerates the interruption points), real pickle files in a
    temporary directory, and the resumed run is compared with the uninterrupted one (tolerance 1e-8).
"""
import copy
import os
import tempfile

import numpy as np

from symx.seqtools import choice, StopPath

PROPERTY = 'C18'
LEVEL = 'model_checking'
BOUNDS = {
    'quick': '(a) pickle and HDF5 names, safe_write on, overwrite_output on/off, directory initially empty or holding old complete '
             'results; 2 processes (= 2 crashes) with 1..2 saves each, crash before any of the <= 13 file-system steps of a '
             'process or none, symbolic written prefix; (b) stub algorithm, 4 checkpoints, interruption after the save of any '
             'checkpoint or kill before any file-system step; (c) TEBD (chi_max 2: real truncation) and two-site DMRG with / '
             'without mixer, with a chi_list {0: 2, 2: 3, 4: 4} (7 sweeps) and with measure_at_algorithm_checkpoints on a 6-site TFI chain, '
             'TimeDependentCorrelationEvolveBraKet (two TEBD engines, XXZ chain L=6); every checkpoint, pickle output, CONCRETE numerics; '
             'compared: every state, number, array and measurement series of the results',
    'thorough': '(a) 3 processes with 1..2 saves; (b) 5 checkpoints; (c) additionally two-site TDVP, ExpMPOEvolution, single-site '
                'DMRG with mixer / with measure_at_algorithm_checkpoints, SpectralSimulationEvolveBraKet',
}
OUTSIDE = ('real os.rename atomicity / fsync ordering / power-loss semantics of the kernel (the model: a completed close or rename is '
           'durable and atomic); VUMPS and the remaining engine classes; HDF5 output in (c); in (c) the numerics are plain execution: '
           'the solver only enumerates the interruption points; delivery of real signals (handle_abort_signal is called directly)')
STUBS = [
    'symx.fsmodel replaces pathlib.Path / os in tenpy.simulations.simulation and open / h5py.File in tenpy.tools.hdf5_io ((a), (b); '
    'same model in both modes, compared with the real file system, real truncated pickles and real truncated HDF5 files in concrete mode)',
    'tenpy.version._get_git_revision -> "unknown" (a subprocess per Simulation)',
    '(b) CounterEvolution: stub algorithm (subclass of TimeEvolutionAlgorithm) + measurement function defined in this module',
    'copyreg reducer for symbolic scalars so that the real pickle module serialises them',
]
ASSUMPTIONS = [
    'no proper prefix of a results pickle loads; a truncated HDF5 file cannot be opened (checked on real files in concrete mode)',
    'a file is partial iff the process died between creating/truncating it and closing it; reads are not crash points',
    '(b) 1e-3 <= dt <= 100, 0 <= eps_k <= 1; save_every_x_seconds = 0 saves at every checkpoint',
]

MAX_STEPS = 13


def setup_symbolic(case):
    import copyreg
    from symx import scalars as S
    from symx import h5model
    h5model.install()
    copyreg.pickle(S.R, lambda r: (S.R, (r.n, r.d, r.poison)))


class _Patches:
    """modelled file system + git stub, restored afterwards"""

    def __init__(self, ctx):
        from symx import fsmodel
        from tenpy import version
        self.fsmodel = fsmodel
        self.fs = fsmodel.FS(ctx)
        self._restore = fsmodel.install(self.fs)
        self._git = version._get_git_revision
        version._get_git_revision = lambda cwd=None: 'unknown'

    def close(self):
        from tenpy import version
        self._restore()
        version._get_git_revision = self._git


def _loadable(fs, name):
    """version stored in the file `name` if the REAL hdf5_io.load can read it back from the modelled disk, else None"""
    from tenpy.tools import hdf5_io
    if not fs.exists(name):
        return None
    try:
        data = hdf5_io.load(str(name))
        return int(data['version'])
    except Exception:  # noqa  (EOFError, UnpicklingError, OSError, KeyError ...)
        return None


def _state_of(fs, name):
    if not fs.exists(name):
        return 'absent'
    f = fs.files[str(name)]
    if not fs.is_complete_now(f):
        return 'partial'
    return 'complete' if _loadable(fs, name) is not None else 'placeholder'


# ======================================================================================== (a) save protocol
def save_protocol_case(ctx, ext, n_proc, max_saves):
    from tenpy.simulations.simulation import Simulation
    from tenpy.tools import hdf5_io
    P = _Patches(ctx)
    fs = P.fs
    Crash = P.fsmodel.Crash
    out = f'results.{ext}'
    try:
        options = {'output_filename': out, 'safe_write': True, 'overwrite_output': bool(choice(ctx, 'overwrite_output', 2)),
                   'model_class': 'TFIChain'}
        version = 0
        if choice(ctx, 'initial_dir', 2) == 1:
            # complete results of an earlier simulation are in the directory
            fs.begin_process(None)
            hdf5_io.save({'version': 0, 'simulation_parameters': dict(options), 'finished_run': True, 'version_info': {}}, out)
        names = {out, f'results.backup.{ext}'}
        n_crashes = 0
        for proc in range(n_proc):
            crash_at = choice(ctx, f'crash{proc}', MAX_STEPS + 1)
            start_out, start_backup = None, None
            # versions loadable at the last quiescent point (process start, start of the save in progress)
            had_complete = [v for v in (_loadable(fs, nm) for nm in names) if v is not None]
            crashed = False
            fs.begin_process(crash_at if crash_at < MAX_STEPS else None)
            try:
                # ---- start or resume: from whatever loads (output file first, then its backup, as a user would)
                loaded = None
                if proc > 0:
                    for nm in sorted(names, key=lambda s: ('backup' in s, s)):
                        v = _loadable(fs, nm)
                        if v is not None and (loaded is None or v > loaded[1]):
                            loaded = (nm, v)
                if loaded is not None:
                    sim = Simulation.from_saved_checkpoint(filename=loaded[0], setup_logging=False)
                    ctx.note('resumed_from_' + ('backup' if 'backup' in loaded[0] else 'output'))
                else:
                    sim = Simulation(copy.deepcopy(options), setup_logging=False)
                    ctx.note('fresh_start')
                names.add(str(sim.output_filename))
                names.add(str(sim._backup_filename))
                start_out, start_backup = _state_of(fs, sim.output_filename), _state_of(fs, sim._backup_filename)
                if had_complete:
                    # the start / resume itself (__init__, fix_output_filenames) must not destroy the last complete results
                    now = [v for v in (_loadable(fs, nm) for nm in names) if v is not None]
                    if not ctx.prove(bool(now) and max(now) >= max(had_complete),
                                     f"{'resume' if loaded is not None else 'start'}: initialisation keeps the complete results file "
                                     f'(output or backup) it found; afterwards out={start_out}, backup={start_backup}'):
                        raise StopPath()
                n_saves = 1 + choice(ctx, f'saves{proc}', max_saves)
                for s in range(n_saves):
                    version += 1
                    cur = [v for v in (_loadable(fs, nm) for nm in names) if v is not None]
                    if cur:
                        had_complete = cur
                    results = {'version': version, 'simulation_parameters': sim.options.as_dict(), 'finished_run': False,
                               'version_info': dict(sim.results['version_info']), 'measurements': {'x': list(range(version))}}
                    sim.save_results(results)
                    ctx.prove(_loadable(fs, sim.output_filename) == version, 'after save_results the output file holds the new results')
                    ctx.prove(not fs.exists(sim._backup_filename), 'after save_results the backup is removed')
            except Crash:
                crashed = True
                n_crashes += 1
            if not crashed:
                ctx.note('process_finished_without_crash')
                break
            ctx.note(f'crash_{n_crashes}')
            # ---- the obligation, after the crash
            state = f'process started with out={start_out}, backup={start_backup}'
            survivors = []
            forms = []
            for nm in sorted(names):
                if not fs.exists(nm):
                    continue
                f = fs.files[nm]
                if fs.is_complete_now(f):
                    v = _loadable(fs, nm)
                    if v is not None:
                        survivors.append(v)
                        forms.append(True)
                elif not f.text:
                    forms.append(fs.complete_formula(f))  # a partial file is loadable only if its prefix is the whole file
            if had_complete:
                ok = ctx.prove(ctx.Or(*forms) if forms else False,
                               f'crash #{n_crashes}: a complete results file survives when one existed at the start of the save; {state}')
                if not ok:
                    raise StopPath()
                ctx.prove(any(v >= max(had_complete) for v in survivors),
                          f'crash #{n_crashes}: the surviving file is from the previous or the current checkpoint; {state}')
            else:
                ctx.prove(True, 'no complete file existed before this process / save')
    except StopPath:
        pass
    finally:
        P.close()


# ======================================================================================== (b) bookkeeping
_CTX = [None]


def _counter_engine_class():
    """defined lazily (needs tenpy), once per process, so that find_subclass(Algorithm, 'CounterEvolution') finds it"""
    from tenpy.algorithms.algorithm import TimeEvolutionAlgorithm
    from tenpy.linalg.truncation import TruncationError
    if _ENGINE[0] is not None:
        return _ENGINE[0]

    class CounterEvolution(TimeEvolutionAlgorithm):
        """stub algorithm: the state is a counter of the steps done, every step 'truncates' with a symbolic error"""

        def prepare_evolve(self, dt):
            pass

        def evolve_step(self, dt):
            ctx = _CTX[0]
            k = getattr(self.psi, 'counter', 0)
            self.psi.counter = k + 1
            if ctx.symbolic:
                e = ctx.real(f'eps{k}', nonneg=True)
                if f'eps{k}' not in _CTX[1]:
                    _CTX[1].add(f'eps{k}')
                    ctx.assume(e <= 1)
            else:
                e = min(max(ctx.real(f'eps{k}', nonneg=True), 0.), 1.) if f'eps{k}' not in ctx.model else ctx.real(f'eps{k}', nonneg=True)
            return TruncationError(e, 1. - 2. * e)

    _ENGINE[0] = CounterEvolution  # keep it alive: __subclasses__ only holds weak references
    return CounterEvolution


_ENGINE = [None]


def m_counter(results, psi, model, simulation, **kwargs):
    """measurement function of the bookkeeping harness (connected by name)"""
    results['counter'] = getattr(psi, 'counter', 0)
    results['engine_time'] = simulation.engine.evolved_time
    results['eps_error'] = simulation.engine.trunc_err.eps


class Interrupt(Exception):
    pass


def _sim_options(out, dt, t0, n_total, save_every=0.):
    return dict(model_class='TFIChain', model_params=dict(L=2, J=1., g=1., bc_MPS='finite', conserve=None),
                initial_state_params=dict(method='lat_product_state', product_state=[['up']]),
                algorithm_class='CounterEvolution',
                algorithm_params=dict(dt=dt, N_steps=1, start_time=t0, max_trunc_err=1.e9, trunc_params=dict(chi_max=4)),
                final_time=t0 + n_total * dt, output_filename=out, save_every_x_seconds=save_every, save_psi=True,
                use_default_measurements=False,
                connect_measurements=[('tenpy.simulations.measurement', 'm_measurement_index'),
                                      ('tenpy.simulations.measurement', 'm_evolved_time'),
                                      ('props.c18_crash_resume', 'm_counter')])


def _run_sim(sim, interrupt_at=None, sigint_at=None):
    """run (or resume) inside the simulation's context; optionally a listener raising Interrupt at checkpoint number
    `interrupt_at` (priority below save_at_checkpoint's -100: fires after the save)"""
    count = [0]
    if interrupt_at is not None:
        orig = sim.init_algorithm

        def init_algorithm(**kw):
            orig(**kw)

            def stop(alg):
                count[0] += 1
                if count[0] == interrupt_at:
                    raise Interrupt()

            sim.engine.checkpoint.connect(stop, priority=-200)

        sim.init_algorithm = init_algorithm
    if sigint_at is not None:
        import signal
        orig2 = sim.init_algorithm

        def init_algorithm2(**kw):
            orig2(**kw)

            def ctrl_c(alg):
                count[0] += 1
                if count[0] == sigint_at:
                    sim.handle_abort_signal(signal.SIGINT, None)  # what the installed handler does on Ctrl-C

            sim.engine.checkpoint.connect(ctrl_c, priority=0)  # before save_at_checkpoint (-100)

        sim.init_algorithm = init_algorithm2
    with sim:
        if sim.loaded_from_checkpoint:
            return sim.resume_run()
        return sim.run()


def bookkeeping_case(ctx, n_total, ext='pkl'):
    from tenpy.simulations.time_evolution import RealTimeEvolution
    _counter_engine_class()
    _CTX[0] = ctx
    _CTX.append(set()) if len(_CTX) < 2 else _CTX.__setitem__(1, set())
    P = _Patches(ctx)
    fs = P.fs
    Crash = P.fsmodel.Crash
    try:
        dt = ctx.real('dt', pos=True)
        ctx.assume(ctx.And(dt >= 1.e-3, dt <= 100))
        t0 = ctx.real('t0')
        ctx.assume(ctx.And(t0 >= -100, t0 <= 100))
        # ---- reference: the uninterrupted run (its own file name)
        fs.begin_process(None)
        ref = _run_sim(RealTimeEvolution(_sim_options(f'ref.{ext}', dt, t0, n_total), setup_logging=False))
        ref_m = ref['measurements']
        n_meas = len(ref_m['measurement_index'])
        ctx.prove(n_meas == n_total + 1, 'uninterrupted run: one initial measurement and one per checkpoint')
        ctx.prove(list(ref_m['measurement_index']) == list(range(n_meas)), 'uninterrupted run: measurement_index counts up')
        ctx.prove_eq(np.array(ref_m['evolved_time'], dtype=object), np.array([t0 + k * dt for k in range(n_meas)], dtype=object),
                     'uninterrupted run: evolved_time series')
        # ---- interrupted run
        out = f'run.{ext}'
        # 0: listener after the save of checkpoint c, 1: killed before file-system step k, 2: SIGINT received before checkpoint c
        # (no periodic saves: handle_abort_signal -> save_at_checkpoint saves and raises KeyboardInterrupt)
        kind = choice(ctx, 'interruption', 3)
        results = None
        sim = RealTimeEvolution(_sim_options(out, dt, t0, n_total, save_every=None if kind == 2 else 0.), setup_logging=False)
        if kind == 0:
            c = 1 + choice(ctx, 'checkpoint', n_total)
            fs.begin_process(None)
            try:
                results = _run_sim(sim, interrupt_at=c)
                ctx.fail('the interrupting listener fired', 'run finished')
            except Interrupt:
                ctx.note(f'interrupted_after_checkpoint_{c}')
            how = 'interrupted after the save of a checkpoint'
        elif kind == 2:
            c = 1 + choice(ctx, 'checkpoint', n_total)
            fs.begin_process(None)
            try:
                import contextlib
                import io
                with contextlib.redirect_stderr(io.StringIO()):
                    results = _run_sim(sim, sigint_at=c)
                ctx.fail('SIGINT at a checkpoint stops the run', 'run finished')
            except KeyboardInterrupt:
                ctx.note(f'sigint_at_checkpoint_{c}')
                ctx.prove(fs.exists(out), 'SIGINT: the results were saved before KeyboardInterrupt was raised')
            how = 'stopped by SIGINT at a checkpoint'
        else:
            k = choice(ctx, 'crash_step', 5 * (n_total + 1) + 2)
            fs.begin_process(k)
            try:
                results = _run_sim(sim)
                ctx.note('no_crash_reached')
            except Crash:
                ctx.note('killed_inside_save')
            how = 'killed inside a save'
        if results is None:
            # ---- resume from whatever loads
            fs.begin_process(None)
            loaded = None
            for nm in (out, f'run.backup.{ext}'):
                if fs.exists(nm):
                    try:
                        from tenpy.tools import hdf5_io
                        data = hdf5_io.load(nm)
                        if loaded is None or len(data['measurements']['measurement_index']) > len(loaded[1]['measurements']['measurement_index']):
                            loaded = (nm, data)
                    except Exception:  # noqa
                        pass
            if loaded is None:
                # killed before the first checkpoint was on disk: start again
                ctx.note('restart_from_scratch')
                fs.files.pop(out, None)
                results = _run_sim(RealTimeEvolution(_sim_options(out, dt, t0, n_total), setup_logging=False))
            else:
                ctx.note('resumed')
                sim2 = RealTimeEvolution.from_saved_checkpoint(checkpoint_results=loaded[1], setup_logging=False)
                results = _run_sim(sim2)
        m = results['measurements']
        ctx.prove(results['finished_run'] is True, f'{how}: the resumed run finishes')
        ctx.prove(list(m['measurement_index']) == list(range(n_meas)), f'{how}: no measurement lost or duplicated (measurement_index)')
        for key in ('evolved_time', 'engine_time', 'counter', 'eps_error'):
            ok = len(m[key]) == n_meas and ctx.prove_eq(np.array(m[key], dtype=object), np.array(ref_m[key], dtype=object),
                                                        f'{how}: measurement series {key} equals the uninterrupted run')
            if not ok and len(m[key]) != n_meas:
                ctx.fail(f'{how}: measurement series {key} equals the uninterrupted run', f'length {len(m[key])} != {n_meas}')
        ctx.prove(getattr(results['psi'], 'counter', None) == n_total, f'{how}: final state equals the uninterrupted run')
    finally:
        P.close()
        _CTX[0] = None


# ======================================================================================== (c) real engines
def _engine_options(engine, fn, mixer, chi_list=None, variant=None):
    base = dict(model_class='TFIChain', model_params=dict(L=6, J=1., g=1.2, bc_MPS='finite', conserve=None),
                initial_state_params=dict(method='lat_product_state', product_state=[['up'], ['down']]),
                output_filename=fn, save_every_x_seconds=0., save_psi=True)
    if variant == 'measure_at_checkpoints':
        # measurements at every algorithm checkpoint: a resumed run must neither repeat nor skip one
        base['measure_at_algorithm_checkpoints'] = True
    if variant in ('TimeDependentCorrelationEvolveBraKet', 'SpectralSimulationEvolveBraKet'):
        # two engines (bra and ket are both evolved): C(t) = <psi| e^{iHt} Sm_j e^{-iHt} Sp_3 |psi>
        base.update(model_class='XXZChain', model_params=dict(L=6, Jz=1., bc_MPS='finite'),
                    algorithm_class=engine, final_time=0.4, operator_t0=dict(opname='Sp', mps_idx=3), operator_t='Sm',
                    algorithm_params=dict(dt=0.05, N_steps=2, order=2, trunc_params=dict(chi_max=8, svd_min=1.e-10)))
        return variant, base
    if chi_list is not None:
        # bond dimension raised in steps during the run (keys = sweep numbers); json turns the keys into strings
        cl = {int(k): int(v) for k, v in chi_list.items()}
        n_sw = max(cl) + 3
        base.update(algorithm_class=engine, model_params=dict(L=6, J=1., g=1.0, bc_MPS='finite', conserve=None),
                    algorithm_params=dict(mixer=mixer, max_sweeps=n_sw, min_sweeps=n_sw, N_sweeps_check=1, chi_list=cl,
                                          trunc_params=dict(svd_min=1.e-12)))
        return 'GroundStateSearch', base
    if 'DMRG' in engine:
        base.update(algorithm_class=engine,
                    algorithm_params=dict(mixer=mixer, max_sweeps=4, min_sweeps=4, N_sweeps_check=1, trunc_params=dict(chi_max=3, svd_min=1.e-10)))
        return 'GroundStateSearch', base
    base.update(algorithm_class=engine, final_time=0.4,
                algorithm_params=dict(dt=0.05, N_steps=2, trunc_params=dict(chi_max=2, svd_min=1.e-10)))
    if engine == 'ExpMPOEvolution':
        base['algorithm_params']['compression_method'] = 'SVD'
    return 'RealTimeEvolution', base


_REF = {}


def _reference(engine, mixer, chi_list=None, variant=None):
    """uninterrupted run (cached per process: deterministic)"""
    key = (engine, mixer, repr(sorted((chi_list or {}).items())), variant)
    if key not in _REF:
        from tenpy.simulations import time_evolution, ground_state_search
        with tempfile.TemporaryDirectory(prefix='verif_c18_') as td:
            clsname, o = _engine_options(engine, os.path.join(td, 'ref.pkl'), mixer, chi_list, variant)
            cls = getattr(time_evolution, clsname, None) or getattr(ground_state_search, clsname)
            sim = cls(o, setup_logging=False)
            count = [0]
            orig = sim.init_algorithm

            def init_algorithm(**kw):
                orig(**kw)
                sim.engine.checkpoint.connect(lambda alg: count.__setitem__(0, count[0] + 1), priority=-200)

            sim.init_algorithm = init_algorithm
            with sim:
                res = sim.run()
            _REF[key] = (res, count[0])
    return _REF[key]


def engines_case(ctx, engine, mixer=None, n_checkpoints=4, chi_list=None, variant=None):
    from tenpy.simulations import time_evolution, ground_state_search
    ref, n_cp = _reference(engine, mixer, chi_list, variant)
    ctx.prove(n_cp == n_checkpoints, 'number of checkpoints of the uninterrupted run')
    c = 1 + choice(ctx, 'checkpoint', n_checkpoints)
    ctx.note(f'interrupted_at_checkpoint_{c}')
    with tempfile.TemporaryDirectory(prefix='verif_c18_') as td:
        fn = os.path.join(td, 'run.pkl')
        clsname, o = _engine_options(engine, fn, mixer, chi_list, variant)
        cls = getattr(time_evolution, clsname, None) or getattr(ground_state_search, clsname)
        try:
            res = _run_sim(cls(o, setup_logging=False), interrupt_at=c)
            interrupted = False
        except Interrupt:
            interrupted = True
        ctx.prove(interrupted or c > n_cp, 'the listener interrupted the run at the chosen checkpoint')
        if interrupted:
            ctx.prove(os.path.exists(fn), 'the checkpoint was saved before the interruption')
            sim2 = cls.from_saved_checkpoint(fn, setup_logging=False)
            try:
                res = _run_sim(sim2)
            except Exception as e:  # noqa
                ctx.fail('the resumed run finishes', f'{type(e).__name__}: {e}'[:200])
                return
            if not ctx.prove(isinstance(res, dict), 'resume_run() returns the results (as documented for Simulation.resume_run)'):
                from tenpy.tools import hdf5_io
                res = hdf5_io.load(fn)  # compare what the finished run saved
        ctx.prove(sorted(os.listdir(td)) == ['run.pkl'], 'only the output file remains after a finished run')
    # ---- compare with the uninterrupted run: every state, every number / array, every measurement series of the results
    from tenpy.networks.mps import MPS
    ctx.prove(sorted(k for k in ref if k != 'resume_data') == sorted(k for k in res if k != 'resume_data'), 'same keys in the results')
    for key in sorted(ref):
        a, b = ref[key], res.get(key)
        if isinstance(a, MPS):
            what = 'final state' if key == 'psi' else f'state {key!r} (second engine)'
            if not isinstance(b, MPS):
                ctx.fail(f'{what}: overlap with the uninterrupted run is 1', 'missing in the resumed results')
                continue
            ov = a.overlap(b) / (a.norm * b.norm)
            ctx.prove(abs(abs(ov) - 1.) <= 1.e-8, f'{what}: overlap with the uninterrupted run is 1')
        elif key == 'energy':
            ctx.prove(abs(a - b) <= 1.e-8, 'final energy equals the uninterrupted run')
        elif isinstance(a, (np.ndarray, float, complex, np.number)) and not isinstance(a, bool):
            a, b = np.asarray(a), np.asarray(b)
            if a.dtype.kind in 'fciu':
                ctx.prove(a.shape == b.shape and bool(np.all(np.abs(a - b) <= 1.e-8)), f'results[{key!r}] equals the uninterrupted run')
    mr, mm = ref['measurements'], res['measurements']
    ctx.prove(sorted(mr) == sorted(mm), 'same measurement keys')
    ctx.prove(list(mm['measurement_index']) == list(range(len(mr['measurement_index']))), 'no measurement lost or duplicated')
    for k in sorted(mr):
        a, b = np.asarray(mr[k]), np.asarray(mm.get(k))
        if a.shape != b.shape:
            ctx.fail(f'measurement series {k} equals the uninterrupted run', f'shape {b.shape} != {a.shape}')
        elif a.dtype.kind in 'fciu':
            ctx.prove(bool(np.all(np.abs(a - b) <= 1.e-8)), f'measurement series {k} equals the uninterrupted run')


# ======================================================================================== model self test
def model_selftest(ctx):
    if ctx.symbolic:
        from symx import fsmodel
        ctx.prove(callable(fsmodel.FS), 'file-system model importable (compared with the real file system in concrete mode)')
        return
    import pickle
    from symx import fsmodel
    fs = fsmodel.FS(ctx)
    fs.begin_process(None)

    def m_write(n, b):
        with fs.open(n, 'wb') as f:
            f.write(b)

    def m_read(n):
        with fs.open(n, 'rb') as f:
            return f.read()

    model = fsmodel.selftest_script(dict(exists=fs.exists, unlink=fs.unlink, rename=fs.rename, write=m_write, read=m_read,
                                         partial=lambda n, b: fs.open(n, 'wb').write(b)))
    with tempfile.TemporaryDirectory(prefix='verif_c18_') as td:
        p = lambda n: os.path.join(td, n)  # noqa
        keep = []

        def r_write(n, b):
            with open(p(n), 'wb') as f:
                f.write(b)

        def r_read(n):
            with open(p(n), 'rb') as f:
                return f.read()

        def r_partial(n, b):
            f = open(p(n), 'wb')
            f.write(b)
            f.flush()
            keep.append(f)

        import pathlib
        real = fsmodel.selftest_script(dict(exists=lambda n: pathlib.Path(p(n)).exists(), unlink=lambda n: pathlib.Path(p(n)).unlink(),
                                            rename=lambda a, b: pathlib.Path(p(a)).rename(p(b)), write=r_write, read=r_read, partial=r_partial))
        for f in keep:
            f.close()
        for r, m in zip(real, model):
            ctx.prove(r == m, f'file-system model agrees with the real file system: {r[0]}')
        ctx.prove(len(real) == len(model), 'script lengths')
        # no proper prefix of a results pickle loads
        data = pickle.dumps({'version': 3, 'measurements': {'x': [1, 2, 3]}, 'simulation_parameters': {'a': 1.5}, 'finished_run': False})
        bad = 0
        for n in range(len(data)):
            try:
                pickle.loads(data[:n])
                bad += 1
            except Exception:  # noqa
                pass
        ctx.prove(bad == 0, 'no proper prefix of a results pickle loads')
        # a truncated HDF5 file cannot be opened
        from tenpy.tools import hdf5_io
        fn = p('x.h5')
        hdf5_io.save({'version': 3, 'measurements': {'x': np.arange(3.)}}, fn)
        raw = open(fn, 'rb').read()
        opened = 0
        for n in sorted(set([0, 1, 8, 100, len(raw) // 2, len(raw) - 100, len(raw) - 1])):
            with open(p('t.h5'), 'wb') as f:
                f.write(raw[:max(n, 0)])
            try:
                hdf5_io.load(p('t.h5'))
                opened += 1
            except Exception:  # noqa
                pass
        ctx.prove(opened == 0, 'a truncated HDF5 results file does not load')


# ======================================================================================== cases
def CASES(tier, seed):
    thorough = tier == 'thorough'
    o = dict(max_paths=1000000, max_wall_s=1500 if thorough else 200, hard_timeout_s=1700 if thorough else 230, validate_paths=2)
    cases = [dict(name='models.selftest', fn='model_selftest', params={}, opts=dict(validate_paths=1))]
    for ext in ('pkl', 'h5'):
        cases.append(dict(name=f'save-protocol[{ext},processes={3 if thorough else 2}]', fn='save_protocol_case',
                          params=dict(ext=ext, n_proc=3 if thorough else 2, max_saves=2), opts=dict(o)))
    cases.append(dict(name=f'bookkeeping[stub algorithm,checkpoints={5 if thorough else 4}]', fn='bookkeeping_case',
                      params=dict(n_total=5 if thorough else 4), opts=dict(o)))
    oc = dict(o)
    oc['validate_paths'] = 1
    engines = [('TEBDEngine', None), ('TwoSiteDMRGEngine', False), ('TwoSiteDMRGEngine', True)]
    if thorough:
        engines += [('TwoSiteTDVPEngine', None), ('ExpMPOEvolution', None), ('SingleSiteDMRGEngine', True)]
    for engine, mixer in engines:
        nm = f'engines[{engine}' + ('' if mixer is None else f',mixer={mixer}') + ']'
        cases.append(dict(name=nm, fn='engines_case', params=dict(engine=engine, mixer=mixer), opts=dict(oc)))
    # measurements at every algorithm checkpoint (ground-state searches): none repeated or skipped by a resume
    for engine in ['TwoSiteDMRGEngine'] + (['SingleSiteDMRGEngine'] if thorough else []):
        cases.append(dict(name=f'engines[{engine},mixer=False,measure_at_algorithm_checkpoints]', fn='engines_case',
                          params=dict(engine=engine, mixer=False, variant='measure_at_checkpoints', n_checkpoints=4), opts=dict(oc)))
    # simulation classes with two engines (bra and ket evolved)
    for simcls in ['TimeDependentCorrelationEvolveBraKet'] + (['SpectralSimulationEvolveBraKet'] if thorough else []):
        cases.append(dict(name=f'engines[{simcls},TEBDEngine]', fn='engines_case',
                          params=dict(engine='TEBDEngine', variant=simcls, n_checkpoints=4), opts=dict(oc)))
    # chi_list with several thresholds inside the run: chi_max has to be restored from the last threshold passed
    cases.append(dict(name='engines[TwoSiteDMRGEngine,mixer=False,chi_list={0:2,2:3,4:4}]', fn='engines_case',
                      params=dict(engine='TwoSiteDMRGEngine', mixer=False, chi_list={'0': 2, '2': 3, '4': 4}, n_checkpoints=7), opts=dict(oc)))
    return cases
