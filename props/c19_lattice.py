"""C19 Lattice geometry: index maps are bijections and couplings are enumerated exactly.

Enumerated (bounds): lattice class, size, ordering, boundary conditions, bc_MPS, wrapper class.
Symbolic (solver decides for all values):
  * the MPS index ``i = q*N + r`` with an UNBOUNDED unit-cell offset ``q`` and the lattice index ``(x0, .., u)`` with
    unbounded ``x0`` for infinite systems (bounded symbolic for finite ones),
  * the displacement ``dx`` of a coupling along every periodic direction (unbounded integer; open directions: bounded
    selector), the unit-cell indices ``u1, u2`` (selectors),
  * the per-site values reshaped by mps2lat_values(_masked) and the coupling strengths (zero / non-zero forks).
The real methods of tenpy.models.lattice run on these; the specification is the harness's own brute force over
lattice coordinates (catalogue/lattices.py), which only reads the data ``lat.order`` and the boundary conditions.
"""
import itertools
import json

import numpy as np

from catalogue import lattices as Lt

PROPERTY = 'C19'
LEVEL = 'model_checking'
BOUNDS = {
    'quick': 'Chain 3-4, Ladder 3, Square 2x3 / 3x3, Triangular 3x2, Honeycomb 2x2, Kagome 2x2 unit cells; every named ordering of each '
             "class plus one custom ('standard', snake, priority) / ('grouped', ..) order; bc open / periodic / shift +-1, bc_MPS finite / "
             'infinite; 6 IrregularLattice (removed and added sites), 3 HelicalLattice, 3 MultiSpeciesLattice configurations; index maps: '
             'ALL integers i = q*N + r and all x0 (unbounded unit-cell offset); couplings: ALL displacements along x when periodic '
             '(unbounded symbolic integer), |dx_a| <= L_a (+1 if periodic) otherwise, all (u1, u2); multi-couplings: 3 operators, second '
             'one with symbolic displacement (|d| <= 1-2 along bounded directions), third from a fixed list, 1-6 (u0,u1,u2) triples; '
             'strength cases: bounded displacements, symbolic strengths of which at most 2 may vanish; '
             'pairs / find_coupling_pairs / distance / position / count_neighbors: PLAIN ENUMERATION with float tolerance 1e-9 (no solver)',
    'thorough': 'sizes up to 4x4 unit cells (Chain 5, Kagome 3x2), displacements unbounded along EVERY periodic direction, full cross product '
                'of orderings and boundary conditions for the first size of each class',
}
OUTSIDE = ('machine-word overflow of indices; dtype of freshly allocated index containers; plotting; HDF5 (C17); '
           'IrregularLattice.mps2lat_values (not defined for lattices with holes: raises AttributeError; the masked variant is checked)')
STUBS = ['numpy facade for tenpy.models.lattice (asarray(..., intp) keeps symbolic content; take with symbolic bounded index = fork per value)',
         'lat._order as object array, lat._mps_fix_u as int arrays that widen on in-place add (state preparation)']
ASSUMPTIONS = ['indices are mathematical integers', 'lattice indices given to lat2mps_idx lie inside the lattice (documented precondition), '
               'except x0 for infinite bc_MPS']


def setup_symbolic(case):
    from symx import stubs
    stubs.install_blas()
    Lt.install_facade()
    import tenpy.models.model as M
    stubs.facade_for(M)


_LATS = {}


def _setup(ctx, cfg, sym=True):
    """sym: symbolic integers will be written into index arrays (mps2lat_idx with offset, couplings with symbolic
    displacement): the index arrays are prepared as object arrays.  sym=False: indices stay concrete int arrays (they
    index arrays of symbolic *values* / strengths)."""
    key = (json.dumps(cfg, sort_keys=True), bool(ctx.symbolic and sym))
    if key not in _LATS:
        # built once per process and reused on every path: none of the methods under check may modify the lattice
        # (idx_case checks that the order is unchanged)
        lat = Lt.build_lattice(cfg)
        ref = Lt.Ref(lat, cfg)
        if ctx.symbolic and sym:
            Lt.symbolic_ready(lat)
        _LATS[key] = (lat, ref)
    return _LATS[key]


def _ilist(a):
    return [v for v in np.asarray(a, dtype=object).reshape(-1)]


# ------------------------------------------------------------------------------------------------
# (1) index maps


def _attributes(ctx, lat, ref):
    """sizes / order of the instance agree with the harness's own expectation (for configurations reached through a
    history of enlarge_mps_unit_cell: old order repeated along x, sizes multiplied; helical: MPS unit cell * factor)"""
    rows = [tuple(int(v) for v in r) for r in lat.order]
    if ref.helical:
        ctx.prove(int(lat.N_sites) == ref.Nh and int(lat.N_cells) * ref.Lu == ref.Nh, 'HelicalLattice: N_sites / N_cells of the MPS unit cell')
        ctx.prove(ref.N % ref.Nh == 0 and ref.N >= ref.Nh, 'HelicalLattice: regular lattice holds a whole number of MPS unit cells')
        ctx.prove(rows == ref.order[:ref.Nh], 'HelicalLattice: order == first N_sites rows of the regular order')
        ctx.prove(tuple(lat.Ls) == tuple(lat.regular_lattice.Ls) == ref.Ls, 'HelicalLattice: Ls of the regular lattice')
        return
    ctx.prove(rows == ref.order, 'order (after the history: old order repeated along x)')
    ctx.prove(tuple(int(v) for v in lat.Ls) == ref.Ls and tuple(lat.shape) == ref.Ls + (ref.Lu, ), 'Ls / shape')
    ctx.prove(int(lat.N_sites) == ref.N and int(lat.N_rings) == ref.Ls[0], 'N_sites / N_rings')
    if not ref.irregular:
        ctx.prove(int(lat.N_cells) == int(np.prod(ref.Ls)) and int(lat.N_sites_per_ring) * ref.Ls[0] == ref.N, 'N_cells / N_sites_per_ring')


def idx_case(ctx, cfg):
    lat, ref = _setup(ctx, cfg)
    N, dim, Ls = ref.N, ref.dim, ref.Ls
    _attributes(ctx, lat, ref)
    # the order is an enumeration of the sites (configuration level, concrete)
    ctx.prove(len(set(ref.order)) == N, 'order: rows are distinct sites')
    ctx.prove(all(0 <= r[a] < Ls[a] for r in ref.order for a in range(dim)) and all(0 <= r[-1] < ref.Lu for r in ref.order),
              'order: rows inside the lattice')
    if not ref.irregular:
        ctx.prove(N == int(np.prod(Ls)) * ref.Lu, 'order: every site of the lattice occurs')
    # --- MPS index -> lattice index -> MPS index, for ALL integers i (infinite) / all i in range(N) (finite)
    if ref.infinite:
        q = ctx.int('q')
        r = ctx.int('r', 0, N - 1)
        i = q * N + r
    else:
        q = 0
        r = ctx.int('i', 0, N - 1)
        i = r
    li = lat.mps2lat_idx(i)
    row = ref.order[int(r)]
    ctx.note(f'site_{int(r)}')
    exp = [row[0] + q * Ls[0]] + list(row[1:])
    ctx.prove_eq(_ilist(li), exp, 'mps2lat_idx(q*N + r) == order[r] shifted by q*Ls[0] along x')
    back = lat.lat2mps_idx(li)
    ctx.prove_eq(back, i, 'lat2mps_idx(mps2lat_idx(i)) == i')
    # result is a copy: writing into it must not change the lattice
    li[...] = -7
    ctx.prove(all(tuple(int(v) for v in a) == b for a, b in zip(lat.order, ref.order)), 'mps2lat_idx returns a copy of the order row')


def latidx_case(ctx, cfg):
    """lattice index -> MPS index -> lattice index, for ALL x0 (infinite) / all x0 in range (finite)"""
    lat, ref = _setup(ctx, cfg)
    N, dim, Ls = ref.N, ref.dim, ref.Ls
    x = [ctx.int('x0') if ref.infinite else ctx.int('x0', 0, Ls[0] - 1)]
    x += [ctx.int(f'x{a}', 0, Ls[a] - 1) for a in range(1, dim)]
    u = ctx.int('u', 0, ref.Lu - 1)
    j_exp = Lt.own_lat2mps(ctx, ref, x, u)
    if j_exp is None:
        ctx.note('nonexistent_site')
        ctx.prove(ref.irregular, 'only irregular lattices have holes')
        return
    j = lat.lat2mps_idx(Lt.ivec(ctx, x + [u]))
    ctx.prove_eq(j, j_exp, 'lat2mps_idx(x0, .., u) == position in order + N * (x0 // Ls[0])')
    if ref.infinite:
        w = x[0] // Ls[0]
        ctx.prove((j >= w * N) & (j < (w + 1) * N), 'lat2mps_idx maps the unit cell x0 // Ls[0] into [wN, (w+1)N)')
    else:
        ctx.prove((j >= 0) & (j < N), 'lat2mps_idx inside range(N)')
    l2 = lat.mps2lat_idx(j)
    ctx.prove_eq(_ilist(l2), x + [u], 'mps2lat_idx(lat2mps_idx(x)) == x')


def idx_array_case(ctx, cfg):
    """array-valued calls agree with the scalar semantics (enumeration over a window of indices)"""
    lat, ref = _setup(ctx, cfg)
    N = ref.N
    s = ctx.choice('start', 3) - 1
    idx = np.arange(s * N, s * N + 2 * N) if ref.infinite else np.arange(N)
    li = lat.mps2lat_idx(idx)
    exp = np.array([[ref.order[k % N][0] + (k // N) * ref.Ls[0]] + list(ref.order[k % N][1:]) for k in idx])
    ctx.prove_eq(np.asarray(li, dtype=object), exp.astype(object), 'mps2lat_idx(array)')
    ctx.prove_eq(np.asarray(lat.lat2mps_idx(li), dtype=object), idx.astype(object), 'lat2mps_idx(array)')
    li2 = lat.lat2mps_idx(exp.reshape((2, -1, ref.dim + 1)) if ref.infinite else exp[np.newaxis])
    ctx.prove(li2.shape == ((2, N) if ref.infinite else (1, N)), 'lat2mps_idx keeps leading dimensions')


# ------------------------------------------------------------------------------------------------
# (2) values


def values_case(ctx, cfg):
    lat, ref = _setup(ctx, cfg, sym=False)
    L = Lt.lattice_module()
    N = ref.N
    simple = isinstance(lat, L.SimpleLattice)
    # mps_idx_fix_u
    for u in range(ref.Lu):
        own = [i for i in range(ref.Nh if ref.helical else N) if ref.order[i][-1] == u]
        ctx.prove([int(v) for v in lat.mps_idx_fix_u(u)] == own, 'mps_idx_fix_u(u): ascending MPS indices of the sites with that u')
        mi, lx = lat.mps_lat_idx_fix_u(u)
        ctx.prove([tuple(int(v) for v in row) for row in lx] == [ref.order[i][:-1] for i in own], 'mps_lat_idx_fix_u(u): lattice indices')
    allu = [int(v) for v in lat.mps_idx_fix_u(None)]
    ctx.prove(sorted(allu) == list(range(ref.Nh if ref.helical else N)), 'mps_idx_fix_u(None): every MPS index exactly once')
    if ref.helical or ref.irregular:
        try:
            lat.mps2lat_values(np.zeros(lat.N_sites))
            ctx.prove(ref.irregular and False, 'mps2lat_values undefined for lattices with holes')
        except (NotImplementedError, AttributeError):
            ctx.prove(True, 'mps2lat_values refuses lattices with holes')
    else:
        A = ctx.array('a', (N, ))
        res = lat.mps2lat_values(A)
        shape = ref.Ls if simple else ref.Ls + (ref.Lu, )
        exp = np.empty(shape, dtype=object if ctx.symbolic else float)
        for i, row in enumerate(ref.order):
            exp[row[:-1] if simple else row] = A[i]
        ctx.prove_eq(res, exp, 'mps2lat_values: A[i] at the lattice index of site i')
        # fixed u
        for u in range(ref.Lu):
            own = [i for i in range(N) if ref.order[i][-1] == u]
            Au = ctx.array(f'b{u}', (len(own), ))
            ru = lat.mps2lat_values(Au, u=u)
            eu = np.empty(ref.Ls, dtype=object if ctx.symbolic else float)
            for k, i in enumerate(own):
                eu[ref.order[i][:-1]] = Au[k]
            ctx.prove_eq(ru, eu, 'mps2lat_values(u=u): values of the sites with that u at their unit cell')
        # two axes, one of them negative, with a spectator axis in between
        if N <= 6:
            C = ctx.array('c', (N, 2, N))
            r2 = lat.mps2lat_values(C, axes=[0, -1])
            e2 = np.empty(tuple(shape) + (2, ) + tuple(shape), dtype=object if ctx.symbolic else float)
            for i, ri in enumerate(ref.order):
                for j, rj in enumerate(ref.order):
                    for k in range(2):
                        e2[(ri[:-1] if simple else ri) + (k, ) + (rj[:-1] if simple else rj)] = C[i, k, j]
            ctx.prove_eq(r2, e2, 'mps2lat_values(axes=[0,-1])')
    # masked variant: window of MPS indices (outside the unit cell for infinite systems)
    n_all = ref.N
    m = min(n_all, 4)
    if ref.infinite:
        start = ctx.choice('start', 2 * n_all + 1) - n_all - m // 2
    else:
        start = ctx.choice('start', n_all - m + 1)
    inds = np.arange(start, start + m)
    Am = ctx.array('m', (2, m))
    include_u = [None, True, False][ctx.choice('include_u', 3)]
    res = lat.mps2lat_values_masked(Am, axes=-1, mps_inds=inds, include_u=include_u)
    inc = (ref.Lu > 1) if include_u is None else include_u
    mask = np.ma.getmaskarray(res)
    data = np.ma.getdata(res)
    coords = []
    for k, i in enumerate(inds):
        row = ref.order[i % n_all]
        c = (row[0] + (i // n_all) * ref.Ls[0], ) + row[1:]
        coords.append(c if inc else c[:-1])
    if len(set(coords)) == m:  # without u different sites of one unit cell collide: outside the documented use
        for k, c in enumerate(coords):
            for t in range(2):
                ctx.prove(not mask[(t, ) + c], 'masked: entry of a given site is not masked')
                ctx.prove_eq(data[(t, ) + c], Am[t, k], 'masked: value of MPS site i at its lattice index (numpy wrap for negative x0)')
        ctx.prove(int((~mask).sum()) == 2 * m, 'masked: everything else is masked')
        ctx.note('masked_checked')
    ctx.prove(res.shape[0] == 2 and res.ndim == 1 + ref.dim + (1 if inc else 0), 'masked: spectator axis kept, lattice axes inserted')


# ------------------------------------------------------------------------------------------------
# (3) couplings


def _sym_dx(ctx, ref, prefix='dx', bound=None, unbounded=(0, ), full_tilt=False):
    """displacement: UNBOUNDED symbolic integer along the periodic directions listed in `unbounded`, bounded selector
    (|dx_a| <= L_a along open, <= L_a + 1 along periodic directions) otherwise"""
    dx = []
    for a in range(ref.dim):
        if ref.open[a] or a not in unbounded:
            b = ref.Ls[a] + (0 if ref.open[a] else 1)
            if a == 0 and ref.open[0] and ref.shift is not None and not full_tilt:
                b -= 1  # |dx0| == Ls[0] on a finite tilted cylinder: separate case `tilt_full_length`
            if bound is not None:
                b = min(bound, b)
            dx.append(ctx.choice(f'{prefix}{a}', 2 * b + 1) - b)
        else:
            dx.append(ctx.int(f'{prefix}{a}'))
    return dx


def _strength(ctx, shape, free=2):
    st = ctx.array('s', tuple(shape))
    for k, v in enumerate(st.reshape(-1)):
        if k >= free:
            ctx.assume(v != 0)
    return st


def _strip(ref, rows, n_idx, tilt_too=False):
    """the strength index of a coupling has no meaning for helical lattices (strengths must be translation invariant);
    for multi-couplings on tilted lattices it depends on which winding of the box is taken as its position"""
    return [r[:n_idx] for r in rows] if (ref.helical or (tilt_too and ref.shift is not None)) else rows


def _u_pairs(Lu):
    return sorted({(0, 0), (0, Lu - 1), (Lu - 1, 0), (Lu - 1, Lu - 1), (Lu // 2, 0)})


def couplings_case(ctx, cfg, unbounded=(0, ), full_tilt=False):
    """possible_couplings(u1, u2, dx) for ALL dx along the unbounded directions and all (u1, u2) (looped inside the
    path: the case split over dx is shared by all pairs)"""
    lat, ref = _setup(ctx, cfg)
    dx = _sym_dx(ctx, ref, unbounded=tuple(unbounded), full_tilt=full_tilt)
    if full_tilt:
        ctx.assume(abs(dx[0]) == ref.Ls[0])
    dxv = Lt.ivec(ctx, dx)
    cs, sh = lat.coupling_shape(dxv)
    exp_shape = Lt.spec_coupling_shape(ref, [[0] * ref.dim, dx])
    ctx.prove_eq(list(cs), exp_shape, 'coupling_shape == Ls - |dx| along open directions, Ls along periodic ones')
    ctx.prove_eq(_ilist(sh), [Lt._min0(d) for d in dx], 'coupling_shape: shift == min(0, dx)')
    for u1, u2 in itertools.product(range(ref.Lu), repeat=2):
        exp_rows, _ = Lt.spec_couplings(ctx, ref, u1, u2, dx)
        ctx.note(f'couplings_{min(len(exp_rows), 4)}{"+" if len(exp_rows) > 4 else ""}')
        mi, mj, li, cs2 = lat.possible_couplings(u1, u2, dxv)
        ctx.prove_eq(list(cs2), exp_shape, 'possible_couplings: coupling_shape')
        got = [[mi[k], mj[k]] + list(li[k]) for k in range(len(mi))]
        Lt.same_multiset(ctx, _strip(ref, got, 2), _strip(ref, exp_rows, 2), 'possible_couplings')


def couplings_strength_case(ctx, cfg):
    """possible_couplings(u1, u2, dx, strength): symbolic strengths (at most two of them may vanish), bounded dx.
    The lattice indices index the strength array, so they stay concrete here."""
    lat, ref = _setup(ctx, cfg, sym=False)
    up = _u_pairs(ref.Lu)
    u1, u2 = up[ctx.choice('u', len(up))]
    dx = _sym_dx(ctx, ref, unbounded=())
    dxv = Lt.ivec(ctx, dx)
    exp_rows, exp_shape = Lt.spec_couplings(ctx, ref, u1, u2, dx)
    if any(s <= 0 for s in exp_shape) or ref.helical:
        st = ctx.array('s', (1, ) * ref.dim)  # (the helical lattice needs translation invariant strengths)
    else:
        st = _strength(ctx, exp_shape)
    mi, mj, sv = lat.possible_couplings(u1, u2, dxv, st)
    exp = []
    for r in exp_rows:
        s = st[tuple(int(c) % st.shape[a] for a, c in enumerate(r[2:]))]
        if bool(s != 0):
            exp.append([r[0], r[1], s])
    got = [[mi[k], mj[k], sv[k]] for k in range(len(mi))]
    ctx.note(f'nonzero_{min(len(exp), 4)}_of_{min(len(exp_rows), 4)}')
    Lt.same_multiset(ctx, got, exp, 'possible_couplings(strength)')


_THIRD = {1: [[1], [-1], [2]], 2: [[0, 1], [1, 0], [-1, -1]]}
# displacement of the FIRST operator (no operator has to sit at the origin: all-positive and all-negative sets occur)
_FIRST = {1: [[0], [1], [-1]], 2: [[0, 0], [1, 0], [-1, -1]]}


def _u_triples(Lu):
    """unit-cell indices of the three operators: all equal, all different where possible, mixed"""
    t = [(0, 0, 0)]
    if Lu > 1:
        t += [(0, 1, 0), (1, 0, 1), (Lu - 1, Lu - 1, 0)]
    if Lu > 2:
        t += [(0, 1, 2), (2, 0, 1)]
    return t


def multi_case(ctx, cfg, strength=False, exceed=False, unbounded=(0, )):
    lat, ref = _setup(ctx, cfg, sym=not strength)
    tr = _u_triples(ref.Lu)
    d1 = _sym_dx(ctx, ref, 'd', bound=1 if ref.dim > 1 else 2, unbounded=() if strength else tuple(unbounded))
    third = _THIRD[ref.dim]
    d2 = third[ctx.choice('third', len(third))]
    first = _FIRST[ref.dim]
    d0 = first[ctx.choice('first', len(first))]
    if strength:
        tr = [tr[ctx.choice('u', len(tr))]]  # the zero / non-zero forks of the strengths would multiply over the triples
    for u in tr:
        _multi_one(ctx, lat, ref, u, d0, d1, d2, strength, exceed)


def _multi_one(ctx, lat, ref, u, d0, d1, d2, strength, exceed):
    ops_spec = [(list(d0), u[0]), (d1, u[1]), (d2, u[2])]
    ops = [('A', Lt.ivec(ctx, d), uu) for d, uu in ops_spec]
    exp_rows, exp_shape = Lt.spec_multi_couplings(ctx, ref, ops_spec)
    if exceed != any(s < 0 for s in exp_shape):
        # the box of the operators exceeds an open direction: separate case `multi_exceed`
        ctx.prove(True, 'other case')
        return
    if exceed:
        try:
            res = lat.possible_multi_couplings(ops)
            ctx.prove(len(res[0]) == 0, 'box larger than an open direction: no couplings')
        except ValueError as e:
            ctx.fail('possible_multi_couplings with a box larger than an open direction returns no couplings', str(e)[:80])
        return
    ctx.note(f'multi_{min(len(exp_rows), 4)}{"+" if len(exp_rows) > 4 else ""}')
    dxa = np.array([o[1] for o in ops], dtype=object if ctx.symbolic else np.intp)
    cs, sh = lat.multi_coupling_shape(dxa)
    ctx.prove_eq(list(cs), exp_shape, 'multi_coupling_shape == Ls - (max dx - min dx) along open directions')
    if not strength:
        mijk, li, cs2 = lat.possible_multi_couplings(ops)
        ctx.prove_eq(list(cs2), exp_shape, 'possible_multi_couplings: coupling_shape')
        got = [list(mijk[k]) + list(li[k]) for k in range(len(mijk))]
        Lt.same_multiset(ctx, _strip(ref, got, 3, True), _strip(ref, exp_rows, 3, True), 'possible_multi_couplings')
        return
    if any(s <= 0 for s in exp_shape) or ref.helical or ref.shift is not None:
        st = ctx.array('s', (1, ) * ref.dim)  # uniform (tilted lattices: see _strip)
    else:
        st = _strength(ctx, exp_shape)
    mijk, sv = lat.possible_multi_couplings(ops, st)
    exp = []
    for r in exp_rows:
        s = st[tuple(int(c) % st.shape[a] for a, c in enumerate(r[3:]))]
        if bool(s != 0):
            exp.append(list(r[:3]) + [s])
    got = [list(mijk[k]) + [sv[k]] for k in range(len(mijk))]
    Lt.same_multiset(ctx, got, exp, 'possible_multi_couplings(strength)')


def two_vs_multi_case(ctx, cfg, unbounded=(0, )):
    """possible_couplings(u1, u2, dx) and possible_multi_couplings([(A, 0, u1), (B, dx, u2)]) enumerate the same couplings
    (with tilted boundaries the two functions attach a coupling to different strength entries: only the MPS indices
    are compared there)"""
    lat, ref = _setup(ctx, cfg)
    dx = _sym_dx(ctx, ref, unbounded=tuple(unbounded))
    dxv = Lt.ivec(ctx, dx)
    for u1, u2 in _u_pairs(ref.Lu):
        mi, mj, li, cs = lat.possible_couplings(u1, u2, dxv)
        mij, li2, cs2 = lat.possible_multi_couplings([('A', Lt.ivec(ctx, [0] * ref.dim), u1), ('B', dxv, u2)])
        ctx.prove_eq(list(cs), list(cs2), 'two-site vs multi: coupling_shape')
        a = [[mi[k], mj[k]] + list(li[k]) for k in range(len(mi))]
        b = [list(mij[k]) + list(li2[k]) for k in range(len(mij))]
        if ref.shift is not None or ref.helical:
            a, b = [r[:2] for r in a], [r[:2] for r in b]
        Lt.same_multiset(ctx, b, a, 'two-site vs multi')


def consumer_case(ctx, cfg):
    """CouplingModel.add_coupling puts strength[corner] * op1_i op2_j on exactly the specified pairs"""
    from tenpy.models.model import CouplingModel
    lat, ref = _setup(ctx, cfg, sym=False)
    up = _u_pairs(ref.Lu)
    u1, u2 = up[ctx.choice('u', len(up))]
    dx = [ctx.choice(f'dx{a}', 2 * ref.Ls[a] + 1) - ref.Ls[a] for a in range(ref.dim)]
    exp_rows, exp_shape = Lt.spec_couplings(ctx, ref, u1, u2, dx)
    M = CouplingModel(lat)
    if all(d == 0 for d in dx) and u1 == u2:
        try:
            J = ctx.real('J')
            ctx.assume(J != 0)
            M.add_coupling(J, u1, 'Sz', u2, 'Sx', dx)
            ctx.fail('add_coupling must refuse an on-site coupling')
        except ValueError:
            ctx.prove(True, 'add_coupling refuses dx == 0, u1 == u2')
        return
    if any(s <= 0 for s in exp_shape):
        st = ctx.array('s', (1, ) * ref.dim)
    else:
        st = _strength(ctx, exp_shape)
    if any(bool(r[0] == r[1]) for r in exp_rows):
        ctx.prove(True, 'self-coupling through the periodic boundary: outside (no documented meaning)')
        return
    M.add_coupling(st, u1, 'Sz', u2, 'Sx', dx)
    tl = M.all_coupling_terms().to_TermList()
    got = []
    for term, s in zip(tl.terms, tl.strength):
        (o1, i), (o2, j) = term
        got.append([o1, i, o2, j, s])
    exp = []
    for r in exp_rows:
        s = st[tuple(int(c) % st.shape[a] for a, c in enumerate(r[2:]))]
        if not bool(s != 0):
            continue
        i, j = r[0], r[1]
        if bool(i < j):
            exp.append(['Sz', i, 'Sx', j, s])
        else:
            exp.append(['Sx', j, 'Sz', i, s])
    ctx.note(f'terms_{len(exp)}')
    Lt.same_multiset(ctx, got, exp, 'add_coupling -> coupling terms')


# ------------------------------------------------------------------------------------------------
# (4) pairs / distances: plain enumeration with float tolerance (no solver involved)


def pairs_case(ctx, cfg, max_dx=2):
    lat = Lt.build_lattice(cfg)
    dim = lat.dim
    Lu = len(lat.unit_cell)
    basis = np.array(lat.basis, dtype=float)
    pos = np.array(lat.unit_cell_positions, dtype=float)
    tol = 1.e-9

    def own_dist(u1, u2, dx):
        v = pos[u2] - pos[u1]
        for a in range(dim):
            v = v + dx[a] * basis[a]
        return float(np.sqrt(np.sum(v * v)))

    # position() and distance() agree with the definition sum_l x_l basis[l] + unit_cell_positions[u]
    for u1, u2 in itertools.product(range(Lu), repeat=2):
        for dx in itertools.product(range(-2, 3), repeat=dim):
            d = own_dist(u1, u2, dx)
            p1 = lat.position(np.array([0] * dim + [u1]))
            p2 = lat.position(np.array(list(dx) + [u2]))
            ctx.prove(abs(np.linalg.norm(p2 - p1) - d) < tol, 'position: distance of two sites')
            ctx.prove(abs(lat.distance(u1, u2, np.array(dx)) - d) < tol, 'distance(u1, u2, dx) == Euclidean distance')
    # distance classes of all directed pairs in a window
    R = max_dx + 1
    allp = []
    for u1, u2 in itertools.product(range(Lu), repeat=2):
        for dx in itertools.product(range(-R, R + 1), repeat=dim):
            d = own_dist(u1, u2, dx)
            if d > tol:
                allp.append((d, u1, u2, dx))
    dists = []
    for d, *_ in sorted(allp):
        if not dists or d - dists[-1] > 1.e-7:
            dists.append(d)

    def cls_of(d):
        return {(u1, u2, dx) for (dd, u1, u2, dx) in allp if abs(dd - d) < 1.e-7}

    def half_of(pairs, cls, what):
        """`pairs` contains exactly one of (u1,u2,dx), (u2,u1,-dx) for every element of the class"""
        given = [(int(a), int(b), tuple(int(v) for v in np.asarray(dx).reshape(-1))) for a, b, dx in pairs]
        ctx.prove(len(set(given)) == len(given), f'{what}: no pair listed twice')
        ctx.prove(all(g in cls for g in given), f'{what}: every listed pair has that distance')
        rev = {(b, a, tuple(-v for v in dx)) for a, b, dx in given}
        ctx.prove(not (rev & set(given)), f'{what}: no pair listed in both directions')
        ctx.prove(set(given) | rev == cls, f'{what}: every pair of sites at that distance is listed (in one direction)')

    keys = ['nearest_neighbors', 'next_nearest_neighbors', 'next_next_nearest_neighbors']
    suffix = '_all-all' if (cfg.get('wrap') or {}).get('kind') == 'multispecies' else ''
    for k, key in enumerate(keys):
        if key + suffix in lat.pairs:
            # the classes of a multi-species lattice contain the zero-distance "onsite" pairs as an own key
            half_of(lat.pairs[key + suffix], cls_of(dists[k]), f"pairs['{key}{suffix}']")
            ctx.note('pairs_keys')
    # find_coupling_pairs: keys = distances ascending, values = one direction of each pair
    lim = max_dx * min(np.linalg.norm(basis, axis=-1))
    cands = [d for d in dists[:4] if d + 1.e-6 < lim]
    if cands:
        cutoff = cands[-1] + 1.e-6
        found = lat.find_coupling_pairs(max_dx=max_dx, cutoff=cutoff)
        fk = list(found.keys())
        want = [d for d in dists if d <= cutoff and any(all(abs(v) <= max_dx for v in p[2]) for p in cls_of(d))]
        ctx.prove(len(fk) == len(want) and all(abs(a - b) < 1.e-7 for a, b in zip(fk, want)), 'find_coupling_pairs: keys are the distances, ascending')
        for d in fk:
            inside = {p for p in cls_of(d) if all(abs(v) <= max_dx for v in p[2])}
            half_of(found[d], inside, 'find_coupling_pairs')
        ctx.note('find_coupling_pairs')
    # count_neighbors: number of sites at nearest-neighbour distance of a bulk site
    if 'nearest_neighbors' + suffix in lat.pairs:
        for u in range(Lu):
            own = sum(1 for (u1, u2, dx) in cls_of(dists[0]) if u1 == u)
            ctx.prove(lat.count_neighbors(u, 'nearest_neighbors' + suffix) == own, 'count_neighbors')


# ------------------------------------------------------------------------------------------------


def _cfg(cls, Ls, order='default', bc=None, bc_MPS='finite', wrap=None, **kw):
    if bc is None:
        bc = ['open'] * len(Ls)
    d = dict(cls=cls, Ls=list(Ls), order=order, bc=list(bc), bc_MPS=bc_MPS, wrap=wrap)
    d.update(kw)
    return d


def _name(c):
    w = c.get('wrap') or {}
    o = c['order'] if isinstance(c['order'], str) else '/'.join(str(x) for x in c['order'])
    h = ''.join(f"+{op[0]}{op[1]}" for op in (c.get('history') or []))
    k = w.get('kind', '') + (str(w['N_unit_cells']) if 'N_unit_cells' in w else '')
    return f"{k}{c['cls']}{'x'.join(map(str, c['Ls']))}{h},{o},bc={'/'.join(map(str, c['bc']))},{c['bc_MPS']}"


ORDERS = {
    'Chain': ['default', 'folded', 'snake', 'Fstyle'],
    'Ladder': ['default', 'folded', 'Cstyle', 'snake', 'Fstyle', 'snakeFstyle'],
    'Square': ['default', 'snake', 'Fstyle', 'snakeFstyle', ['standard', [True, False], [1, 0]]],
    'Triangular': ['default', 'snake', 'Fstyle'],
    'Honeycomb': ['default', 'snake', 'Cstyle', 'snakeCstyle', 'Fstyle', 'snakeFstyle', ['grouped', [[1], [0]]]],
    'Kagome': ['default', 'rings', 'snake', 'Fstyle', ['grouped', [[0, 1], [2]]], ['standard', [False, True, False], [0.5, 2, 1]]],
}


def _bcs(dim, bc_MPS):
    if dim == 1:
        return [['periodic']] if bc_MPS == 'infinite' else [['open'], ['periodic']]
    xs = ['periodic'] if bc_MPS == 'infinite' else ['open', 'periodic']
    return [[x, y] for x in xs for y in ('open', 'periodic', 1, -1)]


def configurations(tier):
    out = []
    if tier == 'quick':
        sizes = {'Chain': [[3], [4]], 'Ladder': [[3]], 'Square': [[2, 3], [3, 3]], 'Triangular': [[3, 2]], 'Honeycomb': [[2, 2]],
                 'Kagome': [[2, 2]]}
    else:
        sizes = {'Chain': [[3], [2], [4], [5]], 'Ladder': [[3], [2], [4]], 'Square': [[2, 3], [3, 2], [3, 3], [4, 4]],
                 'Triangular': [[3, 2], [3, 3], [4, 3]], 'Honeycomb': [[2, 2], [2, 3], [3, 3]], 'Kagome': [[2, 2], [3, 2]]}
    for cls, szs in sizes.items():
        dim = len(szs[0])
        for Ls in szs:
            first = Ls == szs[0]
            for bc_MPS in ('finite', 'infinite'):
                for bc in _bcs(dim, bc_MPS):
                    for order in ORDERS[cls]:
                        default = order == 'default'
                        plain = bc in (['open'], ['periodic'], ['open', 'open'], ['periodic', 'periodic'], ['periodic', -1])
                        if tier == 'quick':
                            # every boundary condition with the default order (first size); every order with the plain
                            # boundary conditions; the larger size only with default order and plain boundary conditions
                            if not first and not (default and plain):
                                continue
                            if not default and not plain:
                                continue
                            if not default and bc_MPS == 'finite' and bc[0] == 'periodic':
                                continue
                        else:
                            # full cross product of orders and boundary conditions for the first size of every class;
                            # larger sizes: every boundary condition with the default order, every order with the plain ones
                            if not first and not default and not plain:
                                continue
                            if Ls == szs[-1] and len(szs) > 2 and not (default and plain):
                                continue
                        out.append(_cfg(cls, Ls, order, bc, bc_MPS))
    return out


def wrapped_configurations(tier):
    out = []
    # irregular: remove one site, add one site of an additional unit-cell index
    out.append(_cfg('Chain', [4], 'default', ['open'], 'finite', wrap=dict(kind='irregular', remove=[[3, 0]])))
    out.append(_cfg('Ladder', [3], 'default', ['open'], 'finite',
                    wrap=dict(kind='irregular', remove=[[2, 1]], add=[[1, 2]], add_mps=[None], n_add_u=1)))
    out.append(_cfg('Ladder', [3], 'default', ['periodic'], 'infinite', wrap=dict(kind='irregular', remove=[[1, 0]])))
    out.append(_cfg('Square', [3, 2], 'default', ['open', 'periodic'], 'finite',
                    wrap=dict(kind='irregular', remove=[[1, 1, 0]], add=[[0, 0, 1]], add_mps=[None], n_add_u=1)))
    out.append(_cfg('Square', [2, 3], 'snake', ['periodic', 1], 'infinite', wrap=dict(kind='irregular', remove=[[0, 2, 0], [1, 0, 0]])))
    out.append(_cfg('Honeycomb', [2, 2], 'default', ['periodic', 'periodic'], 'infinite', wrap=dict(kind='irregular', remove=[[1, 1, 1]])))
    # helical
    out.append(_cfg('Square', [2, 3], 'default', ['periodic', -1], 'infinite', wrap=dict(kind='helical', N_unit_cells=1)))
    out.append(_cfg('Square', [2, 3], 'default', ['periodic', -1], 'infinite', wrap=dict(kind='helical', N_unit_cells=2)))
    out.append(_cfg('Honeycomb', [2, 2], 'Cstyle', ['periodic', -1], 'infinite', wrap=dict(kind='helical', N_unit_cells=2)))
    # multi species
    out.append(_cfg('Chain', [3], 'default', ['open'], 'finite', wrap=dict(kind='multispecies', n=2)))
    out.append(_cfg('Square', [2, 2], 'snake', ['periodic', 'open'], 'infinite', wrap=dict(kind='multispecies', n=2)))
    out.append(_cfg('Honeycomb', [2, 2], 'default', ['periodic', 1], 'infinite', wrap=dict(kind='multispecies', n=2)))
    # configurations reached through a history of in-place public methods (enlarge_mps_unit_cell): factors that do not /
    # do make the underlying regular lattice grow (helical), plain infinite lattices
    E = lambda *f: dict(history=[['enlarge', k] for k in f])  # noqa
    out.append(_cfg('Square', [2, 3], 'default', ['periodic', -1], 'infinite', wrap=dict(kind='helical', N_unit_cells=1), **E(2)))
    out.append(_cfg('Square', [2, 3], 'default', ['periodic', -1], 'infinite', wrap=dict(kind='helical', N_unit_cells=2), **E(2)))
    out.append(_cfg('Honeycomb', [2, 2], 'Cstyle', ['periodic', -1], 'infinite', wrap=dict(kind='helical', N_unit_cells=1), **E(2)))
    out.append(_cfg('Chain', [2], 'default', ['periodic'], 'infinite', **E(2)))
    out.append(_cfg('Ladder', [1], 'default', ['periodic'], 'infinite', **E(3)))
    out.append(_cfg('Square', [1, 2], 'snake', ['periodic', 1], 'infinite', **E(2)))
    if tier == 'thorough':
        out.append(_cfg('Square', [4, 3], 'default', ['periodic', -1], 'infinite', wrap=dict(kind='helical', N_unit_cells=1), **E(2, 2)))
        out.append(_cfg('Square', [2, 3], 'default', ['periodic', -1], 'infinite', wrap=dict(kind='helical', N_unit_cells=1), **E(3)))
        out.append(_cfg('Honeycomb', [1, 2], 'default', ['periodic', 'periodic'], 'infinite', **E(2, 2)))
        out.append(_cfg('Kagome', [1, 2], 'rings', ['periodic', 'open'], 'infinite', **E(2)))
        out.append(_cfg('Square', [4, 3], 'default', ['periodic', -1], 'infinite', wrap=dict(kind='helical', N_unit_cells=3)))
        out.append(_cfg('Kagome', [2, 2], 'Cstyle', ['periodic', -1], 'infinite', wrap=dict(kind='helical', N_unit_cells=1)))
        out.append(_cfg('Triangular', [3, 3], 'default', ['open', 'open'], 'finite',
                        wrap=dict(kind='irregular', remove=[[1, 1, 0], [2, 2, 0]])))
        out.append(_cfg('Kagome', [2, 2], 'default', ['periodic', 'periodic'], 'infinite', wrap=dict(kind='multispecies', n=2)))
    return out


def CASES(tier, seed):
    import tenpy.models.lattice  # noqa: imported in the parent, the forked case workers inherit it
    import tenpy.models.model  # noqa
    cases = []
    O = dict(max_paths=200000, max_wall_s=200 if tier == 'quick' else 1500, validate_paths=1,
             hard_timeout_s=230 if tier == 'quick' else 1700)
    cfgs = configurations(tier)
    wr = wrapped_configurations(tier)
    unb = [0] if tier == 'quick' else [0, 1]  # directions along which displacements are unbounded symbolic integers
    first_size = {}
    for c in cfgs:
        first_size.setdefault(c['cls'], c['Ls'])

    def add(kind, fn, c, **params):
        cases.append(dict(name=f'{kind}[{_name(c)}]', fn=fn, params=dict(cfg=c, **params), opts=O))

    for c in cfgs + wr:
        kind = (c.get('wrap') or {}).get('kind') or ('history' if c.get('history') else None)
        default = c['order'] == 'default' or bool(kind)
        add('idx', 'idx_case', c)
        add('latidx', 'latidx_case', c)
        add('couplings', 'couplings_case', c, unbounded=unb)
        tilted_open = c['bc_MPS'] == 'finite' and c['bc'][0] == 'open' and any(isinstance(b, int) for b in c['bc'])
        if default:
            add('idx_array', 'idx_array_case', c)
            add('values', 'values_case', c)
            small = int(np.prod(c['Ls'])) <= 9
            if kind or c['Ls'] == first_size[c['cls']] or (tier == 'thorough' and small):
                add('multi', 'multi_case', c, unbounded=[0])
            if kind or tilted_open or (tier == 'thorough' and c['Ls'] == first_size[c['cls']]):
                add('two_vs_multi', 'two_vs_multi_case', c, unbounded=[0])
        if tilted_open and default:
            add('tilt_full_length', 'couplings_case', c, unbounded=[], full_tilt=True)
    # strengths and the model-level consumer: selected configurations (bounded displacements)
    sel = [c for c in cfgs if c['order'] == 'default' and c['Ls'] in ([3], [2, 3], [3, 2], [2, 2])
           and c['bc'] in (['open'], ['periodic'], ['open', 'periodic'], ['periodic', 'open'], ['periodic', 1])]
    for c in sel + wr:
        kind = (c.get('wrap') or {}).get('kind')
        if tier == 'quick' and not kind:
            add('two_vs_multi', 'two_vs_multi_case', c, unbounded=[0])
        add('couplings_strength', 'couplings_strength_case', c)
        add('multi_strength', 'multi_case', c, strength=True)
        if kind != 'helical':
            add('add_coupling', 'consumer_case', c)
        if c['bc'] == ['open'] and c['Ls'][0] <= 3:
            add('multi_exceed', 'multi_case', c, exceed=True)
    # (4) plain enumeration
    seen = set()
    for c in cfgs + wr:
        k = (c['cls'], (c.get('wrap') or {}).get('kind'))
        if k in seen or k[1] in ('irregular', 'helical'):
            continue
        seen.add(k)
        cases.append(dict(name=f"pairs[{k[1] or ''}{c['cls']}] (enumeration)", fn='pairs_case', params=dict(cfg=c), opts=O))
    return cases
