#!/usr/bin/env python3
"""regenerates MANIFEST.json from the table below (keeps it valid at all times)"""
import json, os
HERE = os.path.dirname(os.path.abspath(__file__))
CLAIMED = json.load(open(os.path.join(HERE, 'manifest_claims.json')))
props = [json.loads(l) for l in open(os.path.join(HERE, 'properties.jsonl'))]
checks = []
na = []
for p in props:
    pid = p['id']
    c = CLAIMED.get(pid)
    if c is None or c.get('not_applicable'):
        na.append({'property_id': pid, 'reason': (c or {}).get('reason', 'harness not built yet')})
        continue
    checks.append({
        'property_id': pid,
        'quick_cmd': f'./check {pid} --tier quick',
        'thorough_cmd': f'./check {pid} --tier thorough',
        'evidence_file': f'/verif/evidence/{pid}.json',
        'replay_cmd_template': f'./check {pid} --replay {{path}}',
        'engine': 'symx',
        'level_claimed': {'category': c.get('category', 'model_checking'), 'text': c['text'], 'design_ref': c.get('design_ref', f'DESIGN.md section 5 {pid}')},
        'level_note': c['note'],
        'technique': c.get('technique', 'symbolic execution of the real tenpy code on numpy object arrays of z3-backed scalars; z3 decides every obligation per path (bounded)'),
    })
m = {
    'version': 1,
    'setup_cmd': 'true',
    'hooks': {
        'guard': 'TENPY_VERIF_SYMBOLIC',
        'enable': 'environment variable TENPY_VERIF_SYMBOLIC=1 (set by ./check); pure-Python kernels via TENPY_NO_CYTHON=1; nothing is built',
        'baseline_off_cmd': 'cd /repo && /venv/bin/python -m pytest -ra -q -p no:cacheprovider --timeout=900 --continue-on-collection-errors',
        'source_commits': ['1da0bb2'],
        'add_only': True,
    },
    'engines': [{'name': 'symx', 'path': '/verif/symx', 'serves_properties': [c['property_id'] for c in checks],
                 'kind_free_text': 'path-exploring symbolic executor for the real tenpy code: numpy dtype=object arrays hold z3-backed scalars (canonical sparse polynomials over real symbols, z3 Int charges, z3 Bool); every bool() forks on solver feasibility; obligations decided by z3 5.1; counterexamples replayed concretely under /venv/bin/python before being reported'}],
    'checks': checks,
    'not_applicable': na,
    'notes': 'see DESIGN.md; exit codes: 0 held on everything explored, 1 reproduced violation, 3 harness error (never a violation).',
}
json.dump(m, open(os.path.join(HERE, 'MANIFEST.json'), 'w'), indent=1)
print('checks:', [c['property_id'] for c in checks], 'n/a:', [x['property_id'] for x in na])
